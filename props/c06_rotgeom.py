"""C06 - rotation geometry primitives agree with SO(3) ground truth."""
import itertools
import math

import numpy as np
from hypothesis import strategies as st

from vlib import gen, oracle
from vlib.runner import Outcome, call

ID = "C06"
RULE = (
    "Batches (1..12 element-wise, optionally PRNG bulk up to 500) of rotation pairs (A,B) with a third rotation C and a "
    "common rotation Q; A from all Euler classes (uniform, canonical, 45-degree lattice, gimbal lock, near identity, "
    "right angles); B relative to A: free / identical / same rotation in another Euler representation / 1e-9..1e-3 "
    "degrees apart / exactly 180 degrees apart about a drawn axis; inputs passed as scipy Rotation objects or as Euler "
    "arrays, single or batched. Oracle: explicit 3x3 matrices (own Rz/Rx products, Rodrigues), rotation angle by "
    "atan2; distances, symmetry, self-distance, left/right invariance, triangle inequality, cone distance = angle of "
    "z-axes, in-plane distance range and zero for equal orientations, compare_rotations consistency, normals <-> Euler "
    "conversions, visualize_* return values. Second family: normals of length 1e-6..1e6 incl. axis aligned, +-z, y == 0 "
    "exactly. Non-trivial: batch size >= 2, or a pair closer than 1e-3 degrees, or a 180-degree / gimbal-lock case."
)
ASSUMPTIONS = [
    "angular tolerance 2e-5 degrees only where arccos is ill-conditioned (angular distance < 0.01 degrees; cone distance < 0.01 or > 179.99 degrees: arccos of a dot product carrying 1 ulp error is off by up to 1.7e-6 degrees there); 1e-9 degrees elsewhere",
    "c_symmetry > 1: only the clauses that are independent of what a symmetry means are asserted (range, symmetry in the arguments, zero for equal orientations)",
    "test inputs are built with scipy Rotation.from_matrix / from_euler; expected values never use scipy",
]
BUDGET = {"quick": {"examples": 5000, "seconds": 60}, "thorough": {"examples": 12000, "seconds": 420}}
EXHAUSTIVE = "all 24x24 ordered pairs of cube rotations; all single orientations of the 45-degree Euler lattice (17x9x17)"

TOL = 2e-5

axis = st.one_of(
    st.tuples(gen.unit_float, gen.unit_float, gen.unit_float).filter(lambda v: v[0] ** 2 + v[1] ** 2 + v[2] ** 2 > 1e-4),
    st.sampled_from([(1.0, 0.0, 0.0), (0.0, 1.0, 0.0), (0.0, 0.0, 1.0), (1.0, 1.0, 0.0), (1.0, 1.0, 1.0)]),
).map(list)

rel = st.one_of(
    st.fixed_dictionaries({"kind": st.just("free"), "e": gen.euler()}),
    st.fixed_dictionaries({"kind": st.just("free"), "e": gen.euler()}),
    st.fixed_dictionaries({"kind": st.just("same")}),
    st.fixed_dictionaries({"kind": st.just("alt"), "k": st.integers(-1, 1), "m": st.integers(-1, 1), "flip": st.booleans()}),
    st.fixed_dictionaries({"kind": st.just("near"), "axis": axis, "deg": st.floats(1e-9, 1e-3, allow_nan=False)}),
    st.fixed_dictionaries({"kind": st.just("pi"), "axis": axis}),
    st.fixed_dictionaries({"kind": st.just("near_pi"), "axis": axis, "deg": st.floats(1e-9, 1e-3, allow_nan=False)}),
)

pair = st.fixed_dictionaries({"a": gen.euler(), "rel": rel, "c": gen.euler()})

normal = st.one_of(
    st.tuples(gen.finite(-1, 1), gen.finite(-1, 1), gen.finite(-1, 1)).map(list),
    st.sampled_from([[1.0, 0, 0], [-1.0, 0, 0], [0, 1.0, 0], [0, -1.0, 0], [0, 0, 1.0], [0, 0, -1.0],
                     [0.5, 0, 0.5], [-0.5, 0, 0.5], [0.3, 0, -0.8], [1.0, 1.0, 1.0], [0, 2.0, 2.0], [3.0, 0, 0],
                     [1e-3, 0, 1.0], [0.0, 1e-12, 1.0]]),
).filter(lambda v: math.sqrt(v[0] ** 2 + v[1] ** 2 + v[2] ** 2) > 1e-3)


@st.composite
def pairs_case(draw):
    items = draw(st.lists(pair, min_size=1, max_size=12))
    bulk = None
    if draw(st.integers(0, 7)) == 0:
        bulk = {"seed": draw(st.integers(0, 2**31 - 1)), "n": draw(st.integers(1, 500))}
    return {"mode": "pairs", "items": items, "bulk": bulk, "q": draw(gen.euler()),
            "as": draw(st.sampled_from(["rot", "euler", "rot_single"]))}


@st.composite
def normals_case(draw):
    ns = draw(st.lists(normal, min_size=1, max_size=12))
    scale = [draw(st.sampled_from([1.0, 1.0, 1e-6, 1e6, 7.3, 0.01])) for _ in ns]
    bulk = None
    if draw(st.integers(0, 7)) == 0:
        bulk = {"seed": draw(st.integers(0, 2**31 - 1)), "n": draw(st.integers(1, 500))}
    return {"mode": "normals", "normals": ns, "scale": scale, "bulk": bulk,
            "order": draw(st.sampled_from(["zxz", "zzx"])), "as": draw(st.sampled_from(["array", "frame"])),
            "int_dtype": draw(st.integers(0, 5)) == 0}


@st.composite
def angles_case(draw):
    es = draw(st.lists(gen.euler(), min_size=1, max_size=12))
    bulk = None
    if draw(st.integers(0, 7)) == 0:
        bulk = {"seed": draw(st.integers(0, 2**31 - 1)), "n": draw(st.integers(1, 500))}
    return {"mode": "angles", "angles": es, "bulk": bulk}


def strategy(tier):
    return st.one_of(pairs_case(), pairs_case(), normals_case(), angles_case())


def corner_cases(tier):
    yield {"mode": "angles", "angles": [[10, 20, 30], [40, 50, 60]], "bulk": None}
    yield {"mode": "normals", "normals": [[1.0, 0, 0], [0.5, 0, 0.5], [0, 0, 1.0], [0, 0, -1.0]], "scale": [1, 1, 1, 1],
           "bulk": None, "order": "zxz", "as": "array"}
    yield {"mode": "pairs", "items": [{"a": [12.3, 45.6, 78.9], "rel": {"kind": "same"}, "c": [1, 2, 3]}], "bulk":
           {"seed": 5, "n": 400}, "q": [30, 60, 90], "as": "rot"}
    if tier == "thorough":
        cubes = oracle.cube_rotations()
        eul = [list(oracle.matrix_to_zxz(M.astype(float))) for M in cubes]
        for i in range(24):
            items = [{"a": eul[i], "rel": {"kind": "free", "e": eul[j]}, "c": eul[(i + j) % 24]} for j in range(24)]
            yield {"mode": "pairs", "items": items, "bulk": None, "q": eul[(5 * i + 7) % 24], "as": "euler"}
        lat = [-360 + 45 * k for k in range(17)]
        for th in [-180 + 45 * k for k in range(9)]:
            es = [[p, th, s] for p in lat for s in lat]
            yield {"mode": "angles", "angles": es, "bulk": None}


def axis_angle(ax, deg):
    a = np.asarray(ax, float)
    a = a / np.linalg.norm(a)
    t = math.radians(deg)
    K = np.array([[0, -a[2], a[1]], [a[2], 0, -a[0]], [-a[1], a[0], 0]])
    return np.eye(3) + math.sin(t) * K + (1 - math.cos(t)) * (K @ K)


def _mat_b(MA, ea, r):
    k = r["kind"]
    if k == "free":
        return oracle.R_cc(*r["e"]), list(r["e"])
    if k == "same":
        return MA.copy(), list(ea)
    if k == "alt":
        e = [ea[0] + 360.0 * r["k"], ea[1], ea[2] - 360.0 * r["m"]]
        if r["flip"]:
            e = [e[0] + 180.0, -e[1], e[2] + 180.0]
        return MA.copy(), e
    if k == "near":
        M = MA @ axis_angle(r["axis"], r["deg"])
        return M, None
    if k == "pi":
        M = MA @ axis_angle(r["axis"], 180.0)
        return M, None
    if k == "near_pi":
        M = MA @ axis_angle(r["axis"], 180.0 - r["deg"])
        return M, None
    raise ValueError(k)


def run(case):
    out = Outcome()
    if case["mode"] == "pairs":
        run_pairs(case, out)
    elif case["mode"] == "normals":
        run_normals(case, out)
    else:
        run_angles(case, out)
    return out


def _to_input(kind, mats, eulers):
    """Build the input object handed to cryoCAT."""
    from scipy.spatial.transform import Rotation as srot

    if kind == "euler":
        e = np.array([list(oracle.matrix_to_zxz(M)) if ee is None else ee for M, ee in zip(mats, eulers)], float)
        return e
    if kind == "rot_single" and len(mats) == 1:
        return srot.from_matrix(mats[0])
    return srot.from_matrix(np.stack(mats))


def run_pairs(case, out):
    from cryocat import geom

    EA, MA, MB, EB, MC, EC, kinds = [], [], [], [], [], [], []
    for it in case["items"]:
        ea = [float(v) for v in it["a"]]
        ma = oracle.R_cc(*ea)
        mb, eb = _mat_b(ma, ea, it["rel"])
        EA.append(ea); MA.append(ma); MB.append(mb); EB.append(eb); MC.append(oracle.R_cc(*it["c"])); EC.append([float(v) for v in it["c"]])
        kinds.append(it["rel"]["kind"])
    if case.get("bulk"):
        rng = np.random.default_rng(case["bulk"]["seed"])
        for _ in range(case["bulk"]["n"]):
            ea = list(rng.uniform(-360, 360, 3))
            ma = oracle.R_cc(*ea)
            u = rng.random()
            if u < 0.5:
                eb = list(rng.uniform(-360, 360, 3)); mb = oracle.R_cc(*eb); k = "free"
            elif u < 0.75:
                mb, eb, k = ma.copy(), list(ea), "same"
            else:
                mb, eb, k = ma @ axis_angle(rng.normal(size=3), 10 ** rng.uniform(-9, -3)), None, "near"
            ec = list(rng.uniform(-360, 360, 3))
            EA.append(ea); MA.append(ma); MB.append(mb); EB.append(eb); MC.append(oracle.R_cc(*ec)); EC.append(ec)
            kinds.append(k)
    n = len(MA)
    MQ = oracle.R_cc(*case["q"])
    as_ = case["as"]
    if as_ == "euler":
        # expected values must belong to exactly what is handed over: re-decode the Euler angles the harness computed for B
        for i_ in range(n):
            if EB[i_] is None:
                EB[i_] = list(oracle.matrix_to_zxz(MB[i_]))
                MB[i_] = oracle.R_cc(*EB[i_])
    out.label(f"as:{as_}", *(f"rel:{k}" for k in set(kinds)))
    gimbal = any(abs(math.sin(math.radians(e[1]))) < 1e-12 for e in EA)
    if gimbal:
        out.label("gimbal_lock")
    exp = oracle.rot_angle_deg_batch(np.stack([a.T @ b for a, b in zip(MA, MB)]))
    out.nontrivial = n >= 2 or bool(np.any((exp < 1e-3) & (exp > 0))) or gimbal or any(k in ("pi", "near_pi") for k in kinds)
    if n >= 2:
        out.label("batch>=2")
    if n > 50:
        out.label("batch>50")

    A = _to_input(as_, MA, EA)
    B = _to_input(as_, MB, EB)
    C = _to_input(as_, MC, EC)

    def dist(label, X, Y, want, what):
        ok, r = call(out, "angular_distance", lambda: geom.angular_distance(X, Y))
        if not ok:
            return None
        if not out.check(isinstance(r, tuple) and len(r) == 2, "angdist:return_shape", type(r)):
            return None
        d = np.asarray(r[0], float).reshape(-1)
        if not out.check(d.shape == (n,), "angdist:return_shape", d.shape):
            return None
        if not out.check(bool(np.all(np.isfinite(d))), "angdist:not_finite", lambda: f"{what}: {d[~np.isfinite(d)][:3]}"):
            return None
        out.check(bool(np.all((d >= 0) & (d <= 180 + 1e-9))), "angdist:out_of_range", lambda: f"{what}: {d.min()} {d.max()}")
        if want is not None:
            # arccos is ill-conditioned only next to 0 degrees: elsewhere the value must be exact to 1e-9 degrees
            bad = np.abs(d - want) > np.where(want < 0.01, TOL, 1e-9)
            out.check(not bad.any(), label, lambda: f"{what}: got {d[bad][0]!r} expected {want[bad][0]!r} (pair {int(np.argmax(bad))}, {kinds[int(np.argmax(bad))]})")
        return d

    d_ab = dist("angdist:value", A, B, exp, "d(A,B)")
    if as_ == "euler":
        # the same orientations given in radians
        Ar, Br = np.radians(np.asarray(A, float)), np.radians(np.asarray(B, float))
        ok_r, r_r = call(out, "angular_distance(radians)", lambda: geom.angular_distance(Ar, Br, degrees=False))
        if ok_r and isinstance(r_r, tuple):
            d_r = np.asarray(r_r[0], float).reshape(-1)
            out.check(d_r.shape == (n,) and bool(np.all(np.abs(d_r - exp) <= np.where(exp < 0.01, TOL, 1e-7))), "angdist:radian_input_differs", lambda: f"{d_r[:3]} vs {exp[:3]}")
        ok_r, r_c = call(out, "cone_inplane_distance(radians)", lambda: geom.cone_inplane_distance(Ar, Br, degrees=False))
    d_ba = dist("angdist:not_symmetric", B, A, exp, "d(B,A)")
    dist("angdist:self_not_zero", A, A, np.zeros(n), "d(A,A)")
    dist("angdist:self_not_zero", B, B, np.zeros(n), "d(B,B)")
    # invariance under a common rotation on either side
    QA = _to_input("rot" if as_ != "euler" else "euler", [MQ @ a for a in MA], [None] * n)
    QB = _to_input("rot" if as_ != "euler" else "euler", [MQ @ b for b in MB], [None] * n)
    AQ = _to_input("rot" if as_ != "euler" else "euler", [a @ MQ for a in MA], [None] * n)
    BQ = _to_input("rot" if as_ != "euler" else "euler", [b @ MQ for b in MB], [None] * n)
    if as_ == "euler":
        # the products are re-encoded as Euler angles by the harness; judge the result against the re-decoded matrices,
        # and the invariance itself with the conditioning of that re-encoding (1e-6 degrees)
        def redecode(E_):
            return oracle.R_cc_batch(E_)
        e_l = oracle.rot_angle_deg_batch(np.einsum("nji,njk->nik", redecode(QA), redecode(QB)))
        e_r = oracle.rot_angle_deg_batch(np.einsum("nji,njk->nik", redecode(AQ), redecode(BQ)))
        assert np.all(np.abs(e_l - exp) < 1e-5) and np.all(np.abs(e_r - exp) < 1e-5), "harness: re-encoded products drifted"
        dist("angdist:not_left_invariant", QA, QB, e_l, "d(QA,QB)")
        dist("angdist:not_right_invariant", AQ, BQ, e_r, "d(AQ,BQ)")
    else:
        dist("angdist:not_left_invariant", QA, QB, exp, "d(QA,QB)")
        dist("angdist:not_right_invariant", AQ, BQ, exp, "d(AQ,BQ)")
    # triangle inequality through C
    d_ac = dist("angdist:value", A, C, oracle.rot_angle_deg_batch(np.stack([a.T @ c for a, c in zip(MA, MC)])), "d(A,C)")
    d_cb = dist("angdist:value", C, B, oracle.rot_angle_deg_batch(np.stack([c.T @ b for c, b in zip(MC, MB)])), "d(C,B)")
    if d_ab is not None and d_ac is not None and d_cb is not None:
        out.check(bool(np.all(d_ab <= d_ac + d_cb + 1e-4)), "angdist:triangle", lambda: f"{d_ab} {d_ac} {d_cb}")

    # cone distance / in-plane distance (Rotation objects) and cone_inplane_distance / compare_rotations (either)
    from scipy.spatial.transform import Rotation as srot

    RA = srot.from_matrix(np.stack(MA)); RB = srot.from_matrix(np.stack(MB))
    cone_exp = np.array([oracle.angle_between_deg(a[:, 2], b[:, 2]) for a, b in zip(MA, MB)])
    ok, cd = call(out, "cone_distance", lambda: geom.cone_distance(RA, RB))
    if ok:
        cd = np.asarray(cd, float).reshape(-1)
        if out.check(cd.shape == (n,) and bool(np.all(np.isfinite(cd))), "cone:shape_or_nan", cd.shape):
            bad = np.abs(cd - cone_exp) > np.where((cone_exp < 0.01) | (cone_exp > 179.99), TOL, 1e-9)
            out.check(not bad.any(), "cone:value", lambda: f"got {cd[bad][0]!r} expected {cone_exp[bad][0]!r}")
    ok, ip = call(out, "inplane_distance", lambda: geom.inplane_distance(RA, RB))
    if ok:
        ip = np.asarray(ip, float).reshape(-1)
        if out.check(ip.shape == (n,) and bool(np.all(np.isfinite(ip))), "inplane:shape_or_nan", ip.shape):
            out.check(bool(np.all((ip >= 0) & (ip <= 180 + 1e-9))), "inplane:out_of_range", lambda: f"{ip.min()} {ip.max()}")
            same = np.array([k in ("same", "alt") for k in kinds])
            # equal orientations: zero (1e-6 for the re-encoded 'alt' representation)
            if same.any():
                out.check(bool(np.all(ip[same] < 1e-6)), "inplane:nonzero_for_equal", lambda: f"{ip[same].max()!r}")
    ok, ip_self = call(out, "inplane_distance", lambda: geom.inplane_distance(RA, RA))
    if ok:
        out.check(bool(np.all(np.asarray(ip_self, float) == 0)), "inplane:nonzero_for_equal", lambda: f"self {np.max(ip_self)!r}")
    ok, cr = call(out, "compare_rotations", lambda: geom.compare_rotations(A, B))
    if ok and out.check(isinstance(cr, tuple) and len(cr) == 3, "compare:return_shape", type(cr)):
        c0, c1, c2 = [np.asarray(v, float).reshape(-1) for v in cr]
        if out.check(c0.shape == (n,) and c1.shape == (n,) and c2.shape == (n,), "compare:return_shape", (c0.shape, c1.shape, c2.shape)):
            out.check(bool(np.all(np.abs(c0 - exp) <= TOL)), "compare:angular_value", lambda: f"{c0[:3]} vs {exp[:3]}")
            out.check(bool(np.all(np.abs(c1 - cone_exp) <= TOL)), "compare:cone_value", lambda: f"{c1[:3]} vs {cone_exp[:3]}")
            out.check(bool(np.all((c2 >= 0) & (c2 <= 180 + 1e-9))), "compare:inplane_range", lambda: f"{c2.min()} {c2.max()}")
            if as_ != "euler" and "ip" in dir() and isinstance(ip, np.ndarray) and ip.shape == (n,):
                out.check(bool(np.all(np.abs(c2 - ip) <= 1e-9)), "compare:inplane_differs_from_inplane_distance", "")
    for rt, want in (("angular_distance", exp), ("cone_distance", cone_exp)):
        ok, v = call(out, "compare_rotations", lambda: geom.compare_rotations(A, B, rotation_type=rt))
        if ok:
            v = np.asarray(v, float).reshape(-1)
            out.check(v.shape == (n,) and bool(np.all(np.abs(v - want) <= TOL)), f"compare:{rt}_selection", lambda: f"{v[:3]}")
    ok, v = call(out, "compare_rotations", lambda: geom.compare_rotations(A, B, rotation_type="in_plane_distance"))
    if ok:
        v = np.asarray(v, float).reshape(-1)
        out.check(v.shape == (n,) and bool(np.all((v >= 0) & (v <= 180 + 1e-9))), "compare:in_plane_distance_selection_range", lambda: f"{v[:3]}")
        if "c2" in dir() and isinstance(c2, np.ndarray) and c2.shape == (n,):
            out.check(bool(np.all(v == c2)), "compare:in_plane_distance_selection_is_not_the_third_of_all", lambda: f"{v[:3]} vs {c2[:3]}")
    # the clauses that do not depend on what a symmetry means also hold when one is given: range, symmetry in the two
    # arguments, zero for equal orientations
    ns = 2 + (n + len(kinds[0])) % 5
    out.label(f"c_symmetry:{ns}")
    ok1, s_ab = call(out, "angular_distance(c_symmetry)", lambda: geom.angular_distance(RA, RB, c_symmetry=ns))
    ok2, s_ba = call(out, "angular_distance(c_symmetry)", lambda: geom.angular_distance(RB, RA, c_symmetry=ns))
    ok3, s_aa = call(out, "angular_distance(c_symmetry)", lambda: geom.angular_distance(RA, RA, c_symmetry=ns))
    if ok1 and ok2 and ok3 and out.check(all(isinstance(v_, tuple) and len(v_) >= 1 for v_ in (s_ab, s_ba, s_aa)), "angdist_sym:return_shape", lambda: f"{type(s_ab).__name__}"):
        s_ab, s_ba, s_aa = [np.asarray(v_[0], float).reshape(-1) for v_ in (s_ab, s_ba, s_aa)]
        if out.check(s_ab.shape == (n,) and bool(np.all(np.isfinite(s_ab))), "angdist_sym:shape_or_nan", s_ab.shape):
            out.check(bool(np.all((s_ab >= 0) & (s_ab <= 180 + 1e-9))), "angdist_sym:out_of_range", lambda: f"{s_ab.min()} {s_ab.max()}")
            out.check(bool(np.all(np.abs(s_ab - s_ba) <= TOL)), "angdist_sym:not_symmetric", lambda: f"{np.abs(s_ab - s_ba).max()}")
            out.check(bool(np.all(s_aa <= TOL)), "angdist_sym:nonzero_for_equal", lambda: f"{s_aa.max()}")
    ok1, i_ab = call(out, "inplane_distance(c_symmetry)", lambda: geom.inplane_distance(RA, RB, c_symmetry=ns))
    ok3, i_aa = call(out, "inplane_distance(c_symmetry)", lambda: geom.inplane_distance(RA, RA, c_symmetry=ns))
    if ok1 and ok3:
        i_ab, i_aa = np.asarray(i_ab, float).reshape(-1), np.asarray(i_aa, float).reshape(-1)
        out.check(i_ab.shape == (n,) and bool(np.all((i_ab >= 0) & (i_ab <= 180 + 1e-9))), "inplane_sym:out_of_range", lambda: f"{i_ab.min()} {i_ab.max()}")
        out.check(bool(np.all(i_aa == 0)), "inplane_sym:nonzero_for_equal", lambda: f"{i_aa.max()}")


def run_angles(case, out):
    from cryocat import geom
    from scipy.spatial.transform import Rotation as srot

    es = [list(map(float, e)) for e in case["angles"]]
    if case.get("bulk"):
        rng = np.random.default_rng(case["bulk"]["seed"])
        es += [list(rng.uniform(-360, 360, 3)) for _ in range(case["bulk"]["n"])]
    n = len(es)
    E = np.array(es, float)
    M = oracle.R_cc_batch(E)
    zax = M[:, :, 2]
    out.label("angles", "batch>=2" if n >= 2 else "batch=1")
    out.nontrivial = n >= 2
    ok, nv = call(out, "euler_angles_to_normals", lambda: geom.euler_angles_to_normals(E.copy()))
    if ok:
        nv = np.asarray(nv, float)
        if out.check(nv.shape == (n, 3), "normals:shape", nv.shape):
            ln = np.linalg.norm(nv, axis=1)
            out.check(bool(np.all(np.abs(ln - 1) < 1e-9)), "normals:not_unit_length", lambda: f"lengths {ln[:4]} for n={n}")
            out.check(bool(np.all(np.abs(nv / ln[:, None] - zax) < 1e-9)), "normals:not_z_axis_image", lambda: f"{nv[0]} vs {zax[0]}")
    ok, pv = call(out, "visualize_angles", lambda: geom.visualize_angles(E.copy(), plot_rotations=False))
    if ok:
        pv = np.asarray(pv, float)
        out.check(pv.shape == (n, 3) and bool(np.all(np.abs(pv - zax) < 1e-9)), "visualize_angles:not_z_axis_image", lambda: f"{pv[:1]} vs {zax[:1]}")
    ok, pr = call(out, "visualize_rotations", lambda: geom.visualize_rotations(srot.from_matrix(M), plot_rotations=False))
    if ok:
        pr = np.asarray(pr, float)
        out.check(pr.shape == (n, 3) and bool(np.all(np.abs(pr - zax) < 1e-9)), "visualize_rotations:not_z_axis_image", lambda: f"{pr[:1]} vs {zax[:1]}")
    ok, pr2 = call(out, "visualize_rotations", lambda: geom.visualize_rotations(srot.from_matrix(M), plot_rotations=False, radius=2.5))
    if ok:
        pr2 = np.asarray(pr2, float)
        out.check(pr2.shape == (n, 3) and bool(np.all(np.abs(pr2 - 2.5 * zax) < 1e-9)), "visualize_rotations:radius", lambda: f"{pr2.shape} for {n} orientations")
    # with the plot actually drawn (the default) and per-orientation colours, the returned array is still one z-axis image
    # per orientation, in the order of the orientations (now and then only: figures are slow)
    if n <= 40 and (n + int(abs(E[0, 0]) * 10)) % 12 == 0:
        import matplotlib.pyplot as plt
        out.label("visualize_with_plot_and_colours")
        cm = (np.cos(np.arange(n) * 2.3) * 0.5 + 0.5)  # not monotone
        ok, pp = call(out, "visualize_rotations(plot)", lambda: geom.visualize_rotations(srot.from_matrix(M), color_map=cm.copy()))
        plt.close("all")
        if ok:
            pp = np.asarray(pp, float)
            out.check(pp.shape == (n, 3) and bool(np.all(np.abs(pp - zax) < 1e-9)), "visualize_rotations:plotted_call_returns_other_or_reordered_vectors", lambda: f"{pp.shape}")
        ok, pa = call(out, "visualize_angles(plot)", lambda: geom.visualize_angles(E.copy(), color_map=cm.copy()))
        plt.close("all")
        if ok:
            pa = np.asarray(pa, float)
            out.check(pa.shape == (n, 3) and bool(np.all(np.abs(pa - zax) < 1e-9)), "visualize_angles:plotted_call_returns_other_or_reordered_vectors", lambda: f"{pa.shape}")
    # no state may survive a call: the same questions again give the same answers
    ok, pr3 = call(out, "visualize_rotations", lambda: geom.visualize_rotations(srot.from_matrix(M), plot_rotations=False))
    if ok:
        pr3 = np.asarray(pr3, float)
        out.check(pr3.shape == (n, 3) and bool(np.all(np.abs(pr3 - zax) < 1e-9)), "visualize_rotations:result_depends_on_earlier_call", "")
    ok, cd = call(out, "cone_distance", lambda: geom.cone_distance(srot.from_matrix(M), srot.from_matrix(M[::-1])))
    if ok:
        want = np.array([oracle.angle_between_deg(a_[:, 2], b_[:, 2]) for a_, b_ in zip(M, M[::-1])])
        cd_ = np.asarray(cd, float).reshape(-1)
        out.check(cd_.shape == want.shape and bool(np.all(np.abs(cd_ - want) <= TOL)), "cone:result_depends_on_earlier_call", "")
    if "nv" in dir() and isinstance(nv, np.ndarray) and nv.size:
        try:
            nv *= -12.0  # what a function returned belongs to the caller: changing it must not change the next answer
        except (ValueError, TypeError):
            pass
    ok, nv2 = call(out, "euler_angles_to_normals", lambda: geom.euler_angles_to_normals(E.copy()))
    if ok:
        out.check(bool(np.all(np.abs(np.asarray(nv2, float) - zax) < 1e-9)), "normals:result_depends_on_earlier_call", "")


def run_normals(case, out):
    import pandas as pd
    from cryocat import geom

    ns = [[float(v) * s for v in nrm] for nrm, s in zip(case["normals"], case["scale"])]
    if case.get("bulk"):
        rng = np.random.default_rng(case["bulk"]["seed"])
        b = rng.normal(size=(case["bulk"]["n"], 3))
        b[rng.random(len(b)) < 0.2, 1] = 0.0  # y == 0 exactly
        b[rng.random(len(b)) < 0.05, :2] = 0.0  # +-z
        b = b[np.linalg.norm(b, axis=1) > 1e-3]
        ns += b.tolist()
    N = np.array(ns, float)
    if case.get("int_dtype"):  # normals stored as integers (lattice directions): same property, other dtype
        N = np.round(N / np.maximum(1e-9, np.abs(N).max(axis=1, keepdims=True)) * 3)
        N = N[np.abs(N).sum(axis=1) > 0]
        if len(N) == 0:
            N = np.array([[1.0, 1.0, 0.0]])
    n = len(N)
    unit = N / np.linalg.norm(N, axis=1)[:, None]
    out.label("normals", f"order:{case['order']}", f"as:{case['as']}")
    if np.any((N[:, 1] == 0) & (N[:, 0] != 0)):
        out.label("y==0")
    if np.any((N[:, 1] == 0) & (N[:, 0] == 0)):
        out.label("+-z")
    out.nontrivial = n >= 2
    Nin = N.astype(np.int64) if case.get("int_dtype") else N.copy()
    if case.get("int_dtype"):
        out.label("integer_dtype_normals")
    if case["as"] == "array":
        inp = Nin
    else:
        # a frame names its columns: their position, their order and other columns next to them carry no meaning
        inp = pd.DataFrame(Nin, columns=["x", "y", "z"])
        layout = (n + int(abs(N[0, 0]) * 7)) % 4
        if layout == 1:
            inp = inp[["z", "x", "y"]]
        elif layout == 2:
            inp.insert(2, "score", np.linspace(0.1, 0.9, n))
            inp.insert(0, "tomo_id", 1.0)
        elif layout == 3:
            inp = inp[["y", "x", "z"]]
            inp["class"] = 1
        out.label(f"frame_layout:{layout}")
    keep_in = inp.copy()
    ok, ang = call(out, "normals_to_euler_angles", lambda: geom.normals_to_euler_angles(inp, output_order=case["order"]))
    if not ok:
        return
    ang_raw = ang
    ang = np.asarray(ang, float)
    if not out.check(ang.shape == (n, 3) and bool(np.all(np.isfinite(ang))), "n2e:shape_or_nan", ang.shape):
        return
    if case["order"] == "zzx":
        e = np.column_stack((ang[:, 0], ang[:, 2], ang[:, 1]))  # (phi, psi, theta) -> (phi, theta, psi)
    else:
        e = ang
    out.check(keep_in.equals(inp) if hasattr(inp, "equals") else np.array_equal(keep_in, inp), "n2e:input_modified", "")
    if case["order"] != "zzx":
        # composition: the angles exactly as returned (whatever their memory layout) go back through euler_angles_to_normals
        okc, back = call(out, "euler_angles_to_normals(normals_to_euler_angles)", lambda: geom.euler_angles_to_normals(ang_raw))
        if okc:
            back = np.asarray(back, float).reshape(-1, 3)
            out.check(back.shape == unit.shape and bool(np.abs(back - unit).max() <= 1e-9), "n2e:composition_with_euler_angles_to_normals_not_the_unit_normal",
                      lambda: f"{back[:2].tolist()} vs {unit[:2].tolist()}")
    z = oracle.R_cc_batch(e)[:, :, 2]
    err = np.abs(z - unit).max(axis=1)
    bad = err > 1e-9
    if bad.any():
        i = int(np.argmax(bad))
        kind = "y==0" if N[i, 1] == 0 and N[i, 0] != 0 else ("+-z" if N[i, 0] == 0 and N[i, 1] == 0 else "general")
        out.fail(f"n2e:z_axis_not_normal:{kind}", f"normal {N[i].tolist()} -> angles {ang[i].tolist()} -> z axis {z[i].tolist()}")


# rejected calls that run before every case (vlib/faults.py): nothing they leave behind - module state, library options,
# stray files - may make the valid calls of the case violate the statement
from vlib import faults as _faults  # noqa: E402

fault_calls = _faults.for_property(ID)
