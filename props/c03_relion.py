"""C03 - RELION <-> cryoCAT conversion preserves each particle's pose and identity."""
import re

import numpy as np
from hypothesis import strategies as st

from vlib import gen, oracle
from vlib.runner import Outcome, call

ID = "C03"
RULE = (
    "Export domain: particle tables (1..10 rows element-wise, optional PRNG bulk up to 300; integral unique "
    "non-contiguous ids, tomogram numbers 1..999, positions/shifts of any sign, all rotation classes incl. gimbal lock "
    "and non-canonical ranges, column permutation, non-default row labels) x version {3.0, 3.1, 4.0} x pixel size "
    "0.3..20 x name formats built from the documented patterns (directories with digits, $xxx / $yyyy padding, empty "
    "formats) x optics block on/off x in memory (create_relion_df) / through a STAR file (write_out, emmotl2relion, stopgap2relion from a harness-written STOPGAP file), "
    "then import back (RelionMotl(frame), RelionMotl(path), relion2emmotl). Import domain: RELION STAR texts and frames "
    "produced by the harness' own writer with rlnCoordinate, rlnAngle*, rlnOrigin{X,Y,Z} (px, 3.0) or rlnOrigin*Angst "
    "(>= 3.1), class, names, rlnRandomSubset absent / single-valued / two-valued, pixel size via column, optics block "
    "or constructor argument. Oracle: elementary rotation matrices (R_cc = Rz(psi)Rx(theta)Rz(phi), M_rln = "
    "Rz(rot)Ry(tilt)Rz(psi)): export rlnCoordinate == x+shift, origins == 0, M_rln R_cc == I, class/tomogram/"
    "subtomogram numbers recoverable from the names by the documented rule, half-set 1/2 for odd/even; import x,y,z == "
    "rlnCoordinate, shift == -origin (/pixel size for >= 3.1), R_cc == M_rln^-1, tomo/class equal, geom3 == number in the "
    "name, subtomo_id == that number or a strictly increasing renumbering with half-set parity; round trip restores "
    "complete position and orientation matrix. Non-trivial: some particle with theta not in {0,180} and non-zero shift, "
    "or gimbal lock present."
)
ASSUMPTIONS = [
    "binning is 1.0 (the converters' default); name prefixes inside the last path component contain no digits before the tomogram number (documented parsing rule: first number = tomogram, second = subtomogram)",
    "matrix tolerance 2e-7 (scipy's Euler extraction switches to a gimbal-lock approximation for |sin(angle)| < 1e-7, measured 3.5e-9; angles are written with 6 decimals); positions 1e-9 in memory, 5.1e-7 through a file (half a unit of the 6th decimal plus floating-point slop)",
    "the harness' RELION writer emits plain STAR (oracle-independent of cryoCAT's writer)",
]
BUDGET = {"quick": {"examples": 2000, "seconds": 85}, "thorough": {"examples": 8000, "seconds": 540}}

C = oracle.MOTL_COLUMNS
IX = {c: i for i, c in enumerate(C)}

TOMO_FORMATS = ["", "tomo_$xxx.rec", "/data/session2/run_01/tomo_$xxx.rec", "TS_$xxxx", "/path/to/tomos/TS_$xx.mrc", "rec/t$xxx"]
SUB_FORMATS_V3 = ["", "subtomo/TS_$xxx/TS_$xxx_$yyyy_2.67A.mrc", "/d8/run3/sub_$xx_$yyyyyy_1.00A.mrc", "part_$xxx_$yy_bin4.mrc"]
SUB_FORMATS_V4 = ["", "TS_$xxx/$yyyy", "/data/set5/TS_$xxxx/$yyyyyy", "tomo$xx/$y"]


def strategy(tier):
    export = st.fixed_dictionaries({
        "kind": st.just("export"),
        "table": gen.table(1, 10, bulk_max=300, fields={"tomo_id": st.one_of(st.integers(1, 4), st.integers(1, 999), st.sampled_from([100000, 999999, 1000000, 1200001, 20230915])).map(float),
                                                       "class": st.integers(0, 9).map(float)},
                           id_strategy=st.one_of(st.integers(1, 5000), st.integers(1, 5000), st.integers(999990, 30000000))),  # numbers with more digits than the name padding
        "version": st.sampled_from([3.0, 3.1, 4.0]),
        "px": st.one_of(st.floats(0.3, 20, allow_nan=False), st.sampled_from([1.0, 2.67])),
        "tomo_fmt": st.integers(0, len(TOMO_FORMATS) - 1),
        "sub_fmt": st.integers(0, 3),
        "optics": st.booleans(),
        "path": st.sampled_from(["memory", "write_out", "emmotl2relion", "emmotl2relion", "stopgap2relion"]),
        "back": st.sampled_from(["class", "relion2emmotl"]),
        "back_version": st.sampled_from(["given", "detect"]),
    })
    imp = st.fixed_dictionaries({
        "kind": st.just("import"),
        "n": st.integers(1, 12),
        "seed": st.integers(0, 2**31 - 1),
        "angles": st.lists(gen.euler(), min_size=12, max_size=12),
        "version": st.sampled_from([3.0, 3.1, 4.0]),
        "px": st.one_of(st.floats(0.3, 20, allow_nan=False), st.sampled_from([1.0, 2.0])),
        "px_via": st.sampled_from(["column", "optics", "argument"]),
        "subset": st.sampled_from(["absent", "single1", "single2", "both", "both"]),
        "first_subset": st.sampled_from([1, 2]),
        "names": st.sampled_from(["formatted", "numeric"]),
        "dup_ids": st.integers(0, 4).map(lambda v: v == 0),
        "via": st.sampled_from(["file", "file", "frame", "relion2stopgap"]),
        "give_version": st.booleans(),
        "tomo_fmt": st.integers(1, len(TOMO_FORMATS) - 1),
        "sub_fmt": st.integers(1, 3),
    })
    return st.one_of(export, export, imp)


def corner_cases(tier):
    rows = [[0.5, 0, 0, 7, 2, 3, 0, 10.0, 20.0, 30.0, 0.3, -0.7, 1.2, 0, 0, 0, 10.0, 20.0, 30.0, 1],
            [0.25, 0, 0, 2, 14, 1, 0, -3.0, 2.5, 7.0, 0.5, 0.5, -0.5, 0, 0, 0, -100.0, 40.0, 180.0, 2],
            [0.1, 0, 0, 11, 14, 1, 0, 4.0, 5.0, 6.0, 0.0, 0.0, 0.0, 0, 0, 0, 77.0, 25.0, 0.0, 2]]
    t = {"cols": C, "rows": rows, "bulk": None, "index": "default"}
    for v in (3.0, 3.1, 4.0):
        for p in ("memory", "write_out", "emmotl2relion"):
            yield {"kind": "export", "table": t, "version": v, "px": 2.67, "tomo_fmt": 2, "sub_fmt": 1, "optics": v > 3.0 and p != "memory",
                   "path": p, "back": "class", "back_version": "given"}
    for v in (3.0, 3.1, 4.0):
        yield {"kind": "import", "n": 5, "seed": 3, "angles": [[10, 20, 30]] * 12, "version": v, "px": 2.0, "px_via": "column" if v < 4 else "optics",
               "subset": "both", "first_subset": 2, "names": "formatted", "dup_ids": False, "via": "file", "give_version": False, "tomo_fmt": 2, "sub_fmt": 1}
    for v in (3.0, 3.1):  # lists without a micrograph column: every name format, both 3.x versions (even seed + given version select that form)
        for sf_ in (1, 2, 3):
            yield {"kind": "import", "n": 6, "seed": 4, "angles": [[15, 40, -70]] * 12, "version": v, "px": 1.5, "px_via": "column", "subset": "absent", "first_subset": 1,
                   "names": "formatted", "dup_ids": False, "via": "file" if sf_ != 3 else "frame", "give_version": True, "tomo_fmt": 1, "sub_fmt": sf_}


# ----------------------------------------------------------------------------------------------
def fill(fmt, tomo, sub=None):
    def rep(s, letter, val):
        runs = sorted(re.findall(r"\$(?:%s)+" % letter, s), key=len)
        if not runs:
            return s
        r = runs[-1]
        return s.replace(r, str(int(val)).zfill(len(r) - 1))
    s = fmt
    if sub is not None:
        s = rep(s, "y", sub)
    return rep(s, "x", tomo)


def names_for(version):
    if version <= 3.0:
        return "rlnMicrographName", "rlnImageName", ["rlnOriginX", "rlnOriginY", "rlnOriginZ"], "data_"
    if version == 3.1:
        return "rlnMicrographName", "rlnImageName", ["rlnOriginXAngst", "rlnOriginYAngst", "rlnOriginZAngst"], "data_particles"
    return "rlnTomoName", "rlnTomoParticleName", ["rlnOriginXAngst", "rlnOriginYAngst", "rlnOriginZAngst"], "data_particles"


def tomo_number_from_name(name):
    """documented rule: the first number in the last path component."""
    if isinstance(name, (int, float)):
        return float(name)
    try:
        return float(name)
    except ValueError:
        return float(re.search(r"\d+", name.rsplit("/", 1)[-1]).group())


def sub_number_from_name(name, version):
    if isinstance(name, (int, float)):
        return float(name)
    try:
        return float(name)
    except ValueError:
        base = name.rsplit("/", 1)[-1]
        return float(base) if version >= 4.0 else float(re.findall(r"\d+", base)[1])


def M_rln_batch(rot, tilt, psi):
    return np.stack([oracle.R_relion(a, b, c) for a, b, c in zip(rot, tilt, psi)])


def check_export_table(out, cols, sig, a, version, px, tf, sf, tol_pos, tol_rot):
    """cols: dict name -> list of values (numbers or strings); a: canonical array of the exported particle table."""
    tname, sname, onames, _ = names_for(version)
    n = len(a)
    need = ["rlnCoordinateX", "rlnCoordinateY", "rlnCoordinateZ", "rlnAngleRot", "rlnAngleTilt", "rlnAnglePsi", "rlnClassNumber", tname, sname] + onames
    if version != 3.1 or True:
        need.append("rlnRandomSubset")
    missing = [c for c in need if c not in cols]
    if not out.check(not missing, f"{sig}:missing_columns", missing):
        return False
    pos = a[:, [IX["x"], IX["y"], IX["z"]]] + a[:, [IX["shift_x"], IX["shift_y"], IX["shift_z"]]]
    got = np.array([[float(v) for v in cols["rlnCoordinate" + ax]] for ax in "XYZ"]).T
    if not out.check(got.shape == pos.shape, f"{sig}:row_count", f"{got.shape}"):
        return False
    bad = np.abs(got - pos) > tol_pos * np.maximum(1.0, np.abs(pos))
    if bad.any():
        i, k = np.argwhere(bad)[0]
        noshift = abs(got[i, k] - a[i, IX["xyz"[k]]]) <= tol_pos * max(1.0, abs(pos[i, k]))
        out.fail(f"{sig}:coordinate_" + ("without_shift" if noshift else "differs"), f"row {i} axis {'xyz'[k]}: {got[i, k]!r} vs x+shift {pos[i, k]!r}")
        return False
    for o_ in onames:
        if not out.check(all(float(v) == 0 for v in cols[o_]), f"{sig}:origin_not_zero", o_):
            return False
    M = M_rln_batch([float(v) for v in cols["rlnAngleRot"]], [float(v) for v in cols["rlnAngleTilt"]], [float(v) for v in cols["rlnAnglePsi"]])
    R = oracle.R_cc_batch(a[:, [IX["phi"], IX["theta"], IX["psi"]]])
    err = np.abs(M @ R - np.eye(3)).max(axis=(1, 2))
    if (err > tol_rot).any():
        i = int(np.argmax(err))
        th = a[i, IX["theta"]]
        gl = abs(np.sin(np.radians(th))) < 1e-9
        out.fail(f"{sig}:angles_not_inverse_rotation" + ("_gimbal_lock" if gl else ""), f"row {i}: zxz {a[i, [IX['phi'], IX['theta'], IX['psi']]].tolist()} -> ZYZ {[cols['rlnAngleRot'][i], cols['rlnAngleTilt'][i], cols['rlnAnglePsi'][i]]} error {err[i]:.2e}")
        return False
    out.check([float(v) for v in cols["rlnClassNumber"]] == a[:, IX["class"]].tolist(), f"{sig}:class", "")
    # names
    for i in range(n):
        t, s_ = a[i, IX["tomo_id"]], a[i, IX["subtomo_id"]]
        want_t = fill(tf, t) if tf else str(int(t))
        want_s = fill(sf, t, s_) if sf else str(int(s_))
        gt, gs = str(cols[tname][i]), str(cols[sname][i])
        if tf == "":
            ok_t = float(gt) == float(want_t)
        else:
            ok_t = gt == want_t
        if not ok_t:
            out.fail(f"{sig}:tomo_name", f"row {i}: {gt!r} vs {want_t!r}")
            return False
        ok_s = (float(gs) == float(want_s)) if sf == "" else (gs == want_s)
        if not ok_s:
            out.fail(f"{sig}:subtomo_name", f"row {i}: {gs!r} vs {want_s!r}")
            return False
        if tomo_number_from_name(cols[tname][i]) != t:
            out.fail(f"{sig}:tomo_number_not_recoverable", f"{gt!r} -> {tomo_number_from_name(cols[tname][i])} vs {t}")
            return False
        if sub_number_from_name(cols[sname][i], version) != s_:
            out.fail(f"{sig}:subtomo_number_not_recoverable", f"{gs!r}")
            return False
    hs = [float(v) for v in cols["rlnRandomSubset"]]
    want = [1.0 if int(v) % 2 == 1 else 2.0 for v in a[:, IX["subtomo_id"]]]
    out.check(hs == want, f"{sig}:halfset_not_parity", lambda: f"{hs[:6]} vs {want[:6]}")
    return True


def check_import_table(out, df, sig, exp, tol_pos, tol_rot, check_ids=True):
    """exp: dict with pos (n,3) x,y,z; shift (n,3); R (n,3,3); tomo; cls; subnum; subset (list or None)."""
    n = len(exp["tomo"])
    if not out.check(len(df) == n, f"{sig}:row_count", f"{len(df)} vs {n}"):
        return False
    xyz = df[["x", "y", "z"]].to_numpy(dtype=float)
    sh = df[["shift_x", "shift_y", "shift_z"]].to_numpy(dtype=float)
    if "pos" in exp:
        if np.abs(xyz - exp["pos"]).max() > tol_pos * max(1.0, np.abs(exp["pos"]).max()):
            out.fail(f"{sig}:xyz_not_rlnCoordinate", f"{xyz[0].tolist()} vs {exp['pos'][0].tolist()}")
            return False
        d = np.abs(sh - exp["shift"])
        if d.max() > tol_pos * max(1.0, np.abs(exp["shift"]).max()):
            i = int(np.argmax(d.max(axis=1)))
            kind = "sign" if np.abs(sh + exp["shift"]).max() <= tol_pos * max(1.0, np.abs(exp["shift"]).max()) else \
                ("pixel_size_scaling" if exp.get("px") and (np.abs(sh * exp["px"] - exp["shift"]).max() <= 1e-6 * max(1, np.abs(exp["shift"]).max()) or np.abs(sh / exp["px"] - exp["shift"]).max() <= 1e-6 * max(1, np.abs(exp["shift"]).max())) else "differs")
            out.fail(f"{sig}:shift_not_minus_origin_{kind}", f"row {i}: {sh[i].tolist()} vs {exp['shift'][i].tolist()}")
            return False
    else:
        tot = xyz + sh
        if np.abs(tot - exp["total"]).max() > tol_pos * max(1.0, np.abs(exp["total"]).max()):
            i = int(np.argmax(np.abs(tot - exp["total"]).max(axis=1)))
            out.fail(f"{sig}:complete_position", f"row {i}: {tot[i].tolist()} vs {exp['total'][i].tolist()}")
            return False
    R = oracle.R_cc_batch(df[["phi", "theta", "psi"]].to_numpy(dtype=float))
    err = np.abs(R - exp["R"]).max(axis=(1, 2))
    # within ~1e-6 rad of gimbal lock every Euler extraction on the way (export and import) replaces the tiny tilt by 0:
    # up to |sin(theta)| per extraction on top of the STAR rounding
    lock = np.hypot(exp["R"][:, 2, 0], exp["R"][:, 2, 1])
    if (err > tol_rot + np.where(lock < 2e-6, 2.5 * lock, 0.0)).any():
        i = int(np.argmax(err))
        inv = np.abs(R[i] - exp["R"][i].T).max() <= tol_rot
        out.fail(f"{sig}:orientation_" + ("is_the_inverse" if inv else "differs"), f"row {i}: error {err[i]:.2e}")
        return False
    out.check(df["tomo_id"].to_numpy(dtype=float).tolist() == list(exp["tomo"]), f"{sig}:tomo_id", lambda: f"{df['tomo_id'].tolist()[:5]} vs {list(exp['tomo'])[:5]}")
    out.check(df["class"].to_numpy(dtype=float).tolist() == list(exp["cls"]), f"{sig}:class", "")
    if check_ids:
        out.check(df["geom3"].to_numpy(dtype=float).tolist() == list(exp["subnum"]), f"{sig}:geom3_not_subtomo_number", lambda: f"{df['geom3'].tolist()[:5]} vs {list(exp['subnum'])[:5]}")
        ids = df["subtomo_id"].to_numpy(dtype=float)
        sub = exp.get("subset")
        two = sub is not None and len(set(sub)) == 2
        uniq = len(set(exp["subnum"])) == len(exp["subnum"])
        if two:
            # re-numbered particles need unique numbers of the right parity; which numbers they get is not part of the statement
            par = all((int(i_) % 2 == 1) == (int(s_) == 1) for i_, s_ in zip(ids, sub))
            out.check(len(set(ids.tolist())) == len(ids), f"{sig}:halfset_renumbering_not_unique", lambda: ids[:8].tolist())
            out.check(par, f"{sig}:halfset_parity_not_1_odd_2_even", lambda: f"ids {ids[:8].tolist()} subsets {list(sub)[:8]}")
        elif uniq:
            out.check(ids.tolist() == list(exp["subnum"]), f"{sig}:subtomo_id_not_number_in_name", lambda: f"{ids[:5].tolist()} vs {list(exp['subnum'])[:5]}")
        else:
            out.check(len(set(ids.tolist())) == n, f"{sig}:subtomo_ids_not_unique", lambda: ids[:8].tolist())
    return True


def tokens_to_cols(block):
    return {l: [r[j] for r in block["rows"]] for j, l in enumerate(block["labels"])}


def run(case):
    out = Outcome()
    if case["kind"] == "export":
        run_export(case, out)
    else:
        run_import(case, out)
    return out


def run_export(case, out):
    from cryocat import cryomotl

    df0 = gen.table_df(case["table"])
    a = gen.table_array(case["table"])
    a = np.where(np.isnan(a), 0.0, a)
    n = len(a)
    v, px = case["version"], float(case["px"])
    tf = TOMO_FORMATS[case["tomo_fmt"]]
    sf = (SUB_FORMATS_V4 if v >= 4.0 else SUB_FORMATS_V3)[case["sub_fmt"]]
    path = case["path"]
    theta = a[:, IX["theta"]]
    gimbal = bool(np.any(np.abs(np.sin(np.radians(theta))) < 1e-9))
    nzs = np.abs(a[:, [IX["shift_x"], IX["shift_y"], IX["shift_z"]]]).sum(axis=1) > 0
    out.nontrivial = gimbal or bool(np.any(nzs & (np.abs(np.sin(np.radians(theta))) > 1e-6)))
    out.label("export", f"v{v}", f"path:{path}", f"back:{case['back']}", "optics" if case["optics"] else "no_optics", "gimbal" if gimbal else "no_gimbal",
              "fmt_dir_digits" if "2" in tf.rsplit("/", 1)[0] and "/" in tf else "fmt_other", f"index:{case['table'].get('index', 'default')}")
    total = a[:, [IX["x"], IX["y"], IX["z"]]] + a[:, [IX["shift_x"], IX["shift_y"], IX["shift_z"]]]
    R0 = oracle.R_cc_batch(a[:, [IX["phi"], IX["theta"], IX["psi"]]])
    tname, sname, onames, spec = names_for(v)
    star = None
    if path == "memory":
        ok, m = call(out, "RelionMotl", lambda: cryomotl.RelionMotl(df0.copy(), version=v, pixel_size=px, binning=1.0))
        if not ok:
            return
        ok, rdf = call(out, "create_relion_df", lambda: m.create_relion_df(tomo_format=tf, subtomo_format=sf))
        if not ok:
            return
        cols = {c: rdf[c].tolist() for c in rdf.columns}
        if not check_export_table(out, cols, "export_memory", a, v, px, tf, sf, 1e-9, 2e-7):
            return
        ok, back = call(out, "RelionMotl(relion_frame)", lambda: cryomotl.RelionMotl(rdf.copy(), version=v if case["back_version"] == "given" else None, pixel_size=px, binning=1.0))
        if not ok:
            return
        tolp, tolr = 1e-9, 2e-7
        bdf = back.df
    else:
        star = "out.star"
        if path == "write_out":
            ok, m = call(out, "RelionMotl", lambda: cryomotl.RelionMotl(df0.copy(), version=v, pixel_size=px, binning=1.0))
            if not ok:
                return
            ok, _ = call(out, "write_out", lambda: m.write_out(star, write_optics=case["optics"] and v >= 3.1, tomo_format=tf, subtomo_format=sf))
        elif path == "stopgap2relion":
            # the list arrives as a STOPGAP STAR file written by the harness (independent of cryoCAT's writer)
            sgc = ["motl_idx", "tomo_num", "object", "subtomo_num", "halfset", "orig_x", "orig_y", "orig_z", "score", "x_shift", "y_shift", "z_shift", "phi", "psi", "the", "class"]
            emk = {"tomo_num": "tomo_id", "object": "object_id", "subtomo_num": "subtomo_id", "orig_x": "x", "orig_y": "y", "orig_z": "z", "score": "score",
                   "x_shift": "shift_x", "y_shift": "shift_y", "z_shift": "shift_z", "phi": "phi", "psi": "psi", "the": "theta", "class": "class"}
            with open("in_sg.star", "w") as f:
                f.write("\ndata_stopgap_motivelist\n\nloop_\n" + "".join(f"_{c_}\n" for c_ in sgc) + "\n")
                for i in range(n):
                    vals = []
                    for c_ in sgc:
                        if c_ == "motl_idx":
                            vals.append(str(i + 1))
                        elif c_ == "halfset":
                            vals.append("A" if int(a[i, IX["subtomo_id"]]) % 2 == 0 else "B")
                        else:
                            vals.append(repr(float(a[i, IX[emk[c_]]])))
                    f.write(" ".join(vals) + "\n")
            ok, m = call(out, "stopgap2relion", lambda: cryomotl.stopgap2relion("in_sg.star", output_motl_path=star, tomo_format=tf, subtomo_format=sf,
                                                                                 relion_version=v, pixel_size=px, binning=1.0, write_optics=case["optics"] and v >= 3.1))
        else:
            ok, m = call(out, "emmotl2relion", lambda: cryomotl.emmotl2relion(df0.copy(), output_motl_path=star, tomo_format=tf, subtomo_format=sf,
                                                                               relion_version=v, pixel_size=px, binning=1.0, write_optics=case["optics"] and v >= 3.1))
        if not ok:
            return
        try:
            blocks = oracle.star_tokenize(open(star, newline="").read())
        except ValueError as e:
            out.fail("export_file:not_in_star_subset", str(e))
            return
        specs = [b["spec"] for b in blocks]
        want_specs = (["data_optics"] if (case["optics"] and v >= 3.1) else []) + [spec]
        if not out.check(specs == want_specs, "export_file:block_names", f"{specs} vs {want_specs}"):
            return
        cols = tokens_to_cols(blocks[-1])
        if not check_export_table(out, cols, "export_file", a, v, px, tf, sf, 5.1e-7, 2e-7):
            return
        if case["optics"] and v >= 3.1:
            oc = tokens_to_cols(blocks[0])
            out.check("rlnImagePixelSize" in oc and abs(float(oc["rlnImagePixelSize"][0]) - px) <= 5e-7, "export_file:optics_pixel_size", oc.get("rlnImagePixelSize"))
        bv = v if case["back_version"] == "given" else None
        if case["back"] == "class":
            ok, back = call(out, "RelionMotl(path)", lambda: cryomotl.RelionMotl(star, version=bv, pixel_size=px, binning=1.0))
        else:
            ok, back = call(out, "relion2emmotl", lambda: cryomotl.relion2emmotl(star, relion_version=bv, pixel_size=px, binning=1.0))
        if not ok:
            return
        tolp, tolr = 5.1e-7, 2e-7
        bdf = back.df
    ids = a[:, IX["subtomo_id"]]
    exp = {"total": total, "R": R0, "tomo": a[:, IX["tomo_id"]].tolist(), "cls": a[:, IX["class"]].tolist(), "subnum": ids.tolist(),
           "subset": [1 if int(i) % 2 == 1 else 2 for i in ids]}
    check_import_table(out, bdf, "roundtrip", exp, tolp, tolr)
    if path != "memory" and case["back"] == "relion2emmotl" and not out.violations:
        # the converter's update_coordinates switch and output file: same complete positions with the integer part of the
        # shift moved into x,y,z, every other field as without the switch, and the file holds the returned list
        ok, b2 = call(out, "relion2emmotl(update_coordinates, output)", lambda: cryomotl.relion2emmotl(star, output_motl_path="back.em", relion_version=bv, pixel_size=px, binning=1.0, update_coordinates=True))
        if ok and out.check(len(b2.df) == len(bdf), "roundtrip_updated:row_count", f"{len(b2.df)}"):
            out.label("relion2emmotl_update_coordinates")
            X = b2.df[["x", "y", "z"]].to_numpy(dtype=float)
            S = b2.df[["shift_x", "shift_y", "shift_z"]].to_numpy(dtype=float)
            P0 = bdf[["x", "y", "z"]].to_numpy(dtype=float) + bdf[["shift_x", "shift_y", "shift_z"]].to_numpy(dtype=float)
            out.check(bool(np.all(X == np.round(X))), "roundtrip_updated:xyz_not_integral", "")
            out.check(bool(np.all(np.abs(S) <= 0.5 + 1e-9 * np.maximum(1.0, np.abs(P0)))), "roundtrip_updated:shift_exceeds_half", lambda: f"{np.abs(S).max()!r}")
            out.check(bool(np.all(np.abs(X + S - P0) <= 1e-9 * np.maximum(1.0, np.abs(P0)))), "roundtrip_updated:complete_position_moved", lambda: f"{np.abs(X + S - P0).max()!r}")
            rest = [c_ for c_ in oracle.MOTL_COLUMNS if c_ not in ("x", "y", "z", "shift_x", "shift_y", "shift_z")]
            out.check(np.array_equal(b2.df[rest].to_numpy(dtype=float), bdf[rest].to_numpy(dtype=float), equal_nan=True), "roundtrip_updated:other_field_changed", "")
            bad = oracle.em_motl_mismatch("back.em", b2.df)
            out.check(bad is None, f"roundtrip_updated:output_em_file_{bad}", "")


def run_import(case, out):
    import pandas as pd
    from cryocat import cryomotl

    n, v, px = case["n"], case["version"], float(case["px"])
    rng = np.random.default_rng(case["seed"])
    ang = np.array(case["angles"][:n], float)  # (rot, tilt, psi)
    pos = np.round(rng.uniform(-50, 500, (n, 3)) * 2) / 2
    int_pos = case["seed"] % 3 == 0
    if int_pos:
        pos = np.round(pos)  # picked positions are commonly whole voxels and then written without a decimal point
    origin = np.round(rng.uniform(-6, 6, (n, 3)), 3)
    origin[rng.random(n) < 0.2] = 0.0
    tomo = np.sort(rng.integers(1, 40, n)).astype(float)
    sub = (rng.permutation(np.arange(1, 4 * n + 1))[:n]).astype(float)
    if case["dup_ids"] and n > 1:
        sub[-1] = sub[0]
    cls = rng.integers(1, 5, n).astype(float)
    subset = None
    if case["subset"] == "single1":
        subset = [1] * n
    elif case["subset"] == "single2":
        subset = [2] * n
    elif case["subset"] == "both" and n >= 2:
        subset = [int(x) for x in rng.integers(1, 3, n)]
        subset[0] = case["first_subset"]
        if len(set(subset)) == 1:
            subset[-1] = 3 - subset[0]
    tname, sname, onames, spec = names_for(v)
    tf = TOMO_FORMATS[case["tomo_fmt"]]
    sf = (SUB_FORMATS_V4 if v >= 4.0 else SUB_FORMATS_V3)[case["sub_fmt"]]
    numeric = case["names"] == "numeric"
    d = {}
    for k, ax in enumerate("XYZ"):
        d["rlnCoordinate" + ax] = [int(p_) for p_ in pos[:, k]] if int_pos else pos[:, k].tolist()
    d["rlnAngleRot"], d["rlnAngleTilt"], d["rlnAnglePsi"] = ang[:, 0].tolist(), ang[:, 1].tolist(), ang[:, 2].tolist()
    d[tname] = [int(t) for t in tomo] if numeric else [fill(tf, t) for t in tomo]
    d[sname] = [int(s_) for s_ in sub] if numeric else [fill(sf, t, s_) for t, s_ in zip(tomo, sub)]
    for k, o_ in enumerate(onames):
        d[o_] = origin[:, k].tolist()
    d["rlnClassNumber"] = [int(c_) for c_ in cls]
    if subset is not None:
        d["rlnRandomSubset"] = list(subset)
    px_via = case["px_via"]
    if v >= 4.0 and px_via == "column":
        px_via = "optics"
    if v <= 3.0 and px_via == "optics":
        px_via = "column"
    if px_via == "column":
        d["rlnPixelSize"] = [px] * n
    if px_via == "optics":
        d["rlnOpticsGroup"] = [1] * n
    if v <= 3.1 and not numeric and case["seed"] % 2 == 0 and case["give_version"]:  # (without the column the version cannot be told from the labels)
        # lists without a micrograph column (the documented fallback: the tomogram number is the first number in the
        # file name of the subtomogram, which all three name formats used here start with)
        del d[tname]
        out.label("import_without_tomogram_name_column")
    order = list(d.keys())
    rng.shuffle(order)
    gimbal = bool(np.any(np.abs(np.sin(np.radians(ang[:, 1]))) < 1e-9))
    out.nontrivial = gimbal or bool(np.any((np.abs(origin).sum(axis=1) > 0) & (np.abs(np.sin(np.radians(ang[:, 1]))) > 1e-6)))
    out.label("import", f"v{v}", f"px_via:{px_via}", f"subset:{case['subset']}", f"names:{case['names']}", f"via:{case['via']}",
              "first_subset_2" if subset and len(set(subset)) == 2 and subset[0] == 2 else "first_subset_other", "dup_ids" if case["dup_ids"] and n > 1 else "unique_ids")
    kw = {"binning": 1.0}
    if px_via == "argument":
        kw["pixel_size"] = px
    if case["give_version"]:
        kw["version"] = v
    if case["via"] == "frame":
        fr = pd.DataFrame({c: d[c] for c in order})
        # RELION frames in memory are often sorted / filtered views: row labels need not be 0..n-1
        ik = ["default", "reversed", "offset", "strided"][case["seed"] % 4]
        if ik == "reversed":
            fr.index = list(range(n - 1, -1, -1))
        elif ik == "offset":
            fr.index = list(range(n + 3, 2 * n + 3))
        elif ik == "strided":
            fr.index = list(range(0, 3 * n, 3))
        out.label(f"frame_index:{ik}")
        fr_keep = fr.copy()
        if px_via == "optics":
            kw["optics_data"] = pd.DataFrame({"rlnOpticsGroup": [1], "rlnOpticsGroupName": ["opticsGroup1"], "rlnImagePixelSize": [px]})
        ok, m = call(out, "RelionMotl(relion_frame)", lambda: cryomotl.RelionMotl(fr, **kw))
        tolp, tolr = 1e-9, 2e-7
    else:
        with open("in.star", "w") as f:
            f.write("# version 30001\n")
            if px_via == "optics":
                f.write("\ndata_optics\n\nloop_\n_rlnOpticsGroup #1\n_rlnOpticsGroupName #2\n_rlnImagePixelSize #3\n1 opticsGroup1 %r\n\n" % px)
            f.write(f"\n{spec}\n\nloop_\n" + "".join(f"_{c} #{i + 1}\n" for i, c in enumerate(order)))
            for i in range(n):
                f.write("  ".join(repr(d[c][i]) if not isinstance(d[c][i], str) else d[c][i] for c in order) + "\n")
        if case["via"] == "relion2stopgap":
            ok, m = call(out, "relion2stopgap", lambda: cryomotl.relion2stopgap("in.star", output_motl_path="conv_sg.star"))
            if ok:
                # the file written for STOPGAP must carry the imported pose under STOPGAP's names
                try:
                    sgb = oracle.star_tokenize(open("conv_sg.star", newline="").read())[0]
                    sgcols = tokens_to_cols(sgb)
                    import pandas as _pd
                    back = _pd.DataFrame({"x": sgcols["orig_x"], "y": sgcols["orig_y"], "z": sgcols["orig_z"], "shift_x": sgcols["x_shift"], "shift_y": sgcols["y_shift"],
                                          "shift_z": sgcols["z_shift"], "phi": sgcols["phi"], "theta": sgcols["the"], "psi": sgcols["psi"], "tomo_id": sgcols["tomo_num"],
                                          "class": sgcols["class"], "geom3": [0] * len(sgb["rows"]), "subtomo_id": sgcols["subtomo_num"]}).astype(float)
                    M_ = M_rln_batch(ang[:, 0], ang[:, 1], ang[:, 2])
                    shift_ = -origin / (px if (px_via != "argument") else 1.0) if v >= 3.1 else -origin
                    exp_ = {"pos": pos, "shift": shift_, "px": px, "R": np.transpose(M_, (0, 2, 1)), "tomo": tomo.tolist(), "cls": cls.tolist(), "subnum": sub.tolist(), "subset": subset}
                    out.label("relion2stopgap_file")
                    check_import_table(out, back, "relion2stopgap_file", exp_, 5.1e-7, 2e-7, check_ids=False)
                except (ValueError, IndexError, KeyError) as e:
                    out.fail("relion2stopgap_file:unreadable", repr(e))
            if px_via == "argument":
                return  # relion2stopgap offers no pixel-size argument: with the size given only as argument the shifts are not comparable
        else:
            ok, m = call(out, "RelionMotl(path)", lambda: cryomotl.RelionMotl("in.star", **kw))
        tolp, tolr = 1e-9, 2e-7
    if not ok:
        return
    M = M_rln_batch(ang[:, 0], ang[:, 1], ang[:, 2])
    shift = -origin / px if v >= 3.1 else -origin
    exp = {"pos": pos, "shift": shift, "px": px, "R": np.transpose(M, (0, 2, 1)), "tomo": tomo.tolist(), "cls": cls.tolist(), "subnum": sub.tolist(), "subset": subset}
    check_import_table(out, m.df, "import", exp, tolp, tolr)
    if case["via"] == "frame" and not out.violations:
        # the caller's frame is an input: it must be unchanged, and importing it again gives the same list
        out.check(fr.equals(fr_keep), "import:caller_frame_modified", "")
        ok, m_again = call(out, "RelionMotl(relion_frame)", lambda: cryomotl.RelionMotl(fr, **kw))
        if ok:
            sub = Outcome()
            check_import_table(sub, m_again.df, "import_again", exp, tolp, tolr)
            if sub.violations:
                out.fail("import:second_import_of_same_frame_differs", sub.violations[0][0] + " " + sub.violations[0][1])
    if not case["give_version"] and hasattr(m, "version"):
        out.check(float(m.version) == float(v), "import:version_detection", f"{m.version} vs {v}")
    if not out.violations and not numeric and case["via"] != "relion2stopgap" and case["give_version"] and px_via == "column":
        # workflow import -> export: the imported list, exported again by the same object, still describes the same total positions
        out.label("import_then_export", "integer_written_coordinates" if int_pos else "decimal_coordinates")
        ok, rdf = call(out, "create_relion_df(after import)", lambda: m.create_relion_df(tomo_format=tf, subtomo_format=sf))
        if ok and out.check(all(("rlnCoordinate" + ax) in rdf.columns for ax in "XYZ") and all(o_ in rdf.columns for o_ in onames) and len(rdf) == n,
                            "import_then_export:columns", lambda: list(rdf.columns)):
            C_ = np.column_stack([rdf["rlnCoordinate" + ax].to_numpy(dtype=float) for ax in "XYZ"])
            O_ = np.column_stack([rdf[o_].to_numpy(dtype=float) for o_ in onames])
            tot = C_ - (O_ / px if v >= 3.1 else O_)
            want = pos + shift
            err = np.abs(tot - want)
            out.check(bool(err.max() <= 1e-6 * max(1.0, px)), "import_then_export:total_position_not_preserved",
                      lambda: f"row {int(np.argmax(err.max(axis=1)))}: {tot[int(np.argmax(err.max(axis=1)))].tolist()} vs {want[int(np.argmax(err.max(axis=1)))].tolist()}")


# rejected calls that run before every case (vlib/faults.py): nothing they leave behind - module state, library options,
# stray files - may make the valid calls of the case violate the statement
from vlib import faults as _faults  # noqa: E402

fault_calls = _faults.for_property(ID)
