"""C18 - nearest-neighbour analysis equals brute force and is invariant under rigid motion."""
import numpy as np
from hypothesis import strategies as st

from vlib import gen, oracle
from vlib.runner import Outcome, call

ID = "C18"
RULE = (
    "Two particle lists (1..12 rows element-wise each, optional PRNG bulk up to 200; 1..4 tomograms, tomogram sets "
    "overlapping, partly disjoint or identical; optionally the same list twice; non-zero shifts; all rotation classes; "
    "clustered positions so that neighbour ranks are contested) x k in 1..5 x pixel size 0.1..10 x a rigid motion (Q "
    "random or a cube rotation, translation t) applied per tomogram. Oracle: brute force over the second list's "
    "particles of the same tomogram: reported neighbours are the min(k, available) closest in ascending order, distance "
    "== |p_nn - p_q| * pixel size, neighbour id == that particle's subtomogram number, offset == (p_nn - p_q) * pixel "
    "size, particle-frame offset == R_q^T offset, angular distance == rotation angle of R_q^T R_nn, (rot_x,rot_y,rot_z) "
    "== third column of R_q^T R_nn and (phi,theta,psi) encode that matrix (explicit matrices). Metamorphic: after moving "
    "both lists rigidly (positions Qp+t, orientations QR, re-encoded as Euler angles by the harness) distances, "
    "particle-frame offsets, angular distances and relative orientation matrices are unchanged, matched by (query id, "
    "rank). Non-trivial: >= 2 shared tomograms, k >= 2 and (a tomogram with fewer than k candidates or a tomogram present "
    "in only one list)."
)
ASSUMPTIONS = [
    "cases where a query's k-th and (k+1)-th brute-force distances (or two of its first k) differ by less than 1e-7 relative are filtered (ties)",
    "query ids are unique within the first list (rows are matched by query id and order of appearance = rank)",
    "tolerances: distances/offsets 1e-9 relative (1e-6 for the moved configuration), angular distance 1e-9 degrees (2e-5 within 1 degree of 0 or 180), matrices 1e-9 (1e-6 within 1e-4 rad of gimbal lock; 1e-6 after the rigid motion)",
]
BUDGET = {"quick": {"examples": 900, "seconds": 85}, "thorough": {"examples": 2500, "seconds": 540}}

C = oracle.MOTL_COLUMNS
IX = {c: i for i, c in enumerate(C)}
POS_FIELDS = {c: st.one_of(st.integers(0, 12).map(float), gen.finite(0, 15), st.integers(0, 60).map(float)) for c in "xyz"}


def strategy(tier):
    return st.fixed_dictionaries({
        "a": gen.table(1, 12, fields=POS_FIELDS, bulk_max=200),
        "b": gen.table(1, 12, fields=POS_FIELDS, bulk_max=200),
        "same": st.integers(0, 5).map(lambda v: v == 0),
        "tomos_a": st.lists(st.integers(1, 5), min_size=1, max_size=4, unique=True),
        "tomos_b": st.lists(st.integers(1, 5), min_size=1, max_size=4, unique=True),
        "tomo_base": st.sampled_from([0, 0, 0, 230100, 1000000]),
        "b_ids_restart": st.sampled_from([False, False, True]),
        "share": st.integers(0, 4),
        "k": st.integers(1, 5),
        "rotation_type": st.sampled_from(["angular_distance", "angular_distance", "cone_distance"]),
        "px": st.one_of(st.floats(0.1, 10, allow_nan=False), st.just(1.0)),
        "q": st.one_of(gen.euler(), st.integers(0, 23)),
        "t": st.lists(gen.finite(-100, 100), min_size=3, max_size=3),
    })


def corner_cases(tier):
    rows = [[0, 0, 0, i + 1, 1 + i % 2, 1, 0, float(i), float(i * i % 5), 2.0, 0.25, -0.5, 0.0, 0, 0, 0, 10.0 * i, 20.0 + i, 30.0, 1] for i in range(6)]
    t = {"cols": C, "rows": rows, "bulk": None, "index": "default"}
    yield {"a": t, "b": t, "same": True, "tomos_a": [1, 2], "tomos_b": [1, 2], "share": 0, "k": 3, "px": 2.0, "q": 7, "t": [5.0, -3.0, 1.0]}
    yield {"a": t, "b": t, "same": False, "tomos_a": [1, 2], "tomos_b": [2, 3], "share": 0, "k": 5, "px": 0.5, "q": [10, 20, 30], "t": [0.0, 0.0, 0.0]}


def _bulk(rng, n, first_id):
    a = gen.default_bulk(rng, n, first_id)
    cen = rng.uniform(0, 40, (4, 3))
    p = cen[rng.integers(0, 4, n)] + rng.normal(0, 3, (n, 3))
    a[:, [IX["x"], IX["y"], IX["z"]]] = np.round(p, 3)
    return a


def arrays(case):
    A = gen.table_array(case["a"], _bulk)
    B = A.copy() if case["same"] else gen.table_array(case["b"], _bulk)
    base = case.get("tomo_base", 0)  # date-coded / six-digit tomogram numbers that differ by 1
    ta, tb = [t + base for t in case["tomos_a"]], [t + base for t in case["tomos_b"]]
    if case["same"]:
        tb = ta
    elif case["share"] == 1:  # second list covers the first list's tomograms plus one more
        tb = ta + [max(ta + tb) + 1]
    elif case["share"] == 2 and len(ta) >= 2:  # overlap in all but one, plus one only in the second list
        tb = ta[:-1] + [max(ta + tb) + 1]
    elif case["share"] == 3:
        tb = list(ta)
    elif case["share"] == 4 and len(ta) >= 2:  # shifted overlap: {1,2,3} vs {2,3,4}
        ta = sorted(ta)
        tb = ta[1:] + [max(ta) + 1]
    rng = np.random.default_rng(len(A) * 131 + len(B))
    A[:, IX["tomo_id"]] = np.array(ta, float)[rng.integers(0, len(ta), len(A))]
    if case["same"]:
        B = A.copy()
    else:
        B[:, IX["tomo_id"]] = np.array(tb, float)[rng.integers(0, len(tb), len(B))]
        if case.get("b_ids_restart"):  # second list merged from per-tomogram lists: its particle numbers restart in every tomogram
            for t_ in np.unique(B[:, IX["tomo_id"]]):
                sel = B[:, IX["tomo_id"]] == t_
                B[sel, IX["subtomo_id"]] = rng.permutation(np.arange(1, sel.sum() + 1))
    return A, B


def pose(a):
    P = a[:, [IX["x"], IX["y"], IX["z"]]] + a[:, [IX["shift_x"], IX["shift_y"], IX["shift_z"]]]
    R = oracle.R_cc_batch(a[:, [IX["phi"], IX["theta"], IX["psi"]]])
    return P, R


def brute(A, B, k, px):
    """expected rows: dict (query id, rank) -> dict"""
    PA, RA = pose(A)
    PB, RB = pose(B)
    exp = {}
    tie = False
    for i in range(len(A)):
        t = A[i, IX["tomo_id"]]
        cand = np.where(B[:, IX["tomo_id"]] == t)[0]
        if len(cand) == 0:
            continue
        d = np.linalg.norm(PB[cand] - PA[i], axis=1)
        o = np.argsort(d, kind="stable")
        kk = min(k, len(cand))
        ds = d[o]
        chk = ds[:kk + 1] if len(ds) > kk else ds[:kk]
        if len(chk) > 1 and np.any(np.diff(chk) <= 1e-7 * np.maximum(1.0, chk[1:])):
            tie = True
        for r in range(kk):
            j = cand[o[r]]
            off = (PB[j] - PA[i]) * px
            rel = RA[i].T @ RB[j]
            exp[(A[i, IX["subtomo_id"]], r)] = {"dist": ds[r] * px, "off": off, "roff": RA[i].T @ off, "ang": oracle.rot_angle_deg(rel), "rel": rel,
                                                "cone": oracle.angle_between_deg(RA[i][:, 2], RB[j][:, 2]),
                                                "nn_id": B[j, IX["subtomo_id"]], "tomo": t}
    return exp, tie


def table_rows(stats):
    """dict (query id, rank) -> row, rank = order of appearance per query id."""
    seen = {}
    rows = {}
    cols = list(stats.columns)
    vals = stats[[c for c in cols if c != "type"]].to_numpy(dtype=float)
    names = [c for c in cols if c != "type"]
    for r in vals:
        d = dict(zip(names, r))
        q = d["subtomo_idx"]
        rk = seen.get(q, 0)
        seen[q] = rk + 1
        rows[(q, rk)] = d
    return rows


def move(a, Q, t):
    b = a.copy()
    P, R = pose(a)
    P2 = P @ Q.T + np.asarray(t)
    sh = a[:, [IX["shift_x"], IX["shift_y"], IX["shift_z"]]]
    b[:, [IX["x"], IX["y"], IX["z"]]] = P2 - sh
    for i in range(len(a)):
        b[i, [IX["phi"], IX["theta"], IX["psi"]]] = oracle.matrix_to_zxz(Q @ R[i])
    return b


def run(case):
    from cryocat import cryomotl, nnana

    out = Outcome()
    A, B = arrays(case)
    k, px = case["k"], float(case["px"])
    exp, tie = brute(A, B, k, px)
    if tie:
        out.filtered = "distance_tie"
        return out
    ta, tb = set(A[:, IX["tomo_id"]]), set(B[:, IX["tomo_id"]])
    shared = ta & tb
    few = any((B[:, IX["tomo_id"]] == t).sum() < k for t in shared)
    out.label(f"k:{k}", f"rotation_type:{case.get('rotation_type', 'angular_distance')}", f"shared_tomograms:{len(shared)}", "same_list" if case["same"] else "two_lists", "few_candidates" if few else "enough_candidates",
              "disjoint_extra" if (ta ^ tb) else "identical_sets")
    out.nontrivial = len(shared) >= 2 and k >= 2 and (few or bool(ta ^ tb))

    def mk(a, t):
        return gen.table_df({"cols": t["cols"], "rows": a.tolist(), "bulk": None, "index": t.get("index", "default")})

    def stats_for(a, b):
        ok, ma = call(out, "Motl", lambda: cryomotl.Motl(mk(a, case["a"])))
        ok2, mb = call(out, "Motl", lambda: cryomotl.Motl(mk(b, case["b"] if not case["same"] else case["a"])))
        if not (ok and ok2):
            return None
        rt = case.get("rotation_type", "angular_distance")
        if rt == "angular_distance":
            ok, s = call(out, "get_nn_stats", lambda: nnana.get_nn_stats(ma, mb, pixel_size=px, nn_number=k))
        else:
            ok, s = call(out, "get_nn_stats", lambda: nnana.get_nn_stats(ma, mb, pixel_size=px, nn_number=k, rotation_type=rt))
        return s if ok else None

    if not shared:
        out.label("no_shared_tomogram")
        ok, ma = call(out, "Motl", lambda: cryomotl.Motl(mk(A, case["a"])))
        ok2, mb = call(out, "Motl", lambda: cryomotl.Motl(mk(B, case["b"])))
        if ok and ok2:
            ok, s = call(out, "get_nn_stats:no_shared_tomogram", lambda: nnana.get_nn_stats(ma, mb, pixel_size=px, nn_number=k))
            if ok:
                out.check(len(s) == 0, "rows_without_shared_tomogram", len(s))
        return out
    s = stats_for(A, B)
    if s is None:
        return out
    need = ["distance", "coord_x", "coord_y", "coord_z", "coord_rx", "coord_ry", "coord_rz", "angular_distance", "rot_x", "rot_y", "rot_z", "phi", "theta", "psi", "subtomo_idx", "subtomo_nn_idx"]
    if not out.check(all(c in s.columns for c in need), "columns", list(s.columns)):
        return out
    rows = table_rows(s)
    if not out.check(set(rows) == set(exp), "row_set_differs_from_brute_force", lambda: f"missing {sorted(set(exp) - set(rows))[:4]} extra {sorted(set(rows) - set(exp))[:4]}"):
        return out
    for key, e in exp.items():
        r = rows[key]
        tol = 1e-9 * max(1.0, abs(e["dist"]))
        if r["subtomo_nn_idx"] != e["nn_id"]:
            other_tomo = not np.any((B[:, IX["subtomo_id"]] == r["subtomo_nn_idx"]) & (B[:, IX["tomo_id"]] == e["tomo"]))
            out.fail("neighbour_from_another_tomogram" if other_tomo else "neighbour_not_the_closest_in_rank_order", f"query {key}: reported {r['subtomo_nn_idx']} expected {e['nn_id']}")
            return out
        if abs(r["distance"] - e["dist"]) > tol:
            nopx = abs(r["distance"] * px - e["dist"]) <= tol * max(1, px) or abs(r["distance"] - e["dist"] / px * 1.0) <= tol
            out.fail("distance_" + ("pixel_size" if nopx and px != 1 else "differs"), f"query {key}: {r['distance']!r} vs {e['dist']!r}")
            return out
        off = np.array([r["coord_x"], r["coord_y"], r["coord_z"]])
        if np.abs(off - e["off"]).max() > 1e-9 * max(1.0, np.abs(e["off"]).max()):
            out.fail("centred_offset_differs", f"query {key}: {off.tolist()} vs {e['off'].tolist()}")
            return out
        roff = np.array([r["coord_rx"], r["coord_ry"], r["coord_rz"]])
        if np.abs(roff - e["roff"]).max() > 1e-8 * max(1.0, np.abs(e["off"]).max()):
            fwd = np.abs(roff - e["rel"] @ np.zeros(3)).max()  # placeholder to keep the classification simple
            out.fail("particle_frame_offset_differs", f"query {key}: {roff.tolist()} vs {e['roff'].tolist()}")
            return out
        rt_ = case.get("rotation_type", "angular_distance")
        want_a = e["ang"] if rt_ == "angular_distance" else e["cone"]
        # arccos-type round-off only matters at the two ends of the range; in between the angle is held to 1e-9 degrees
        if not (abs(r["angular_distance"] - want_a) <= (1e-9 if 1.0 < want_a < 179.0 else 2e-5)):
            out.fail("angular_distance_differs" if rt_ == "angular_distance" else "cone_distance_differs", f"query {key}: {r['angular_distance']!r} vs {want_a!r}")
            return out
        z = np.array([r["rot_x"], r["rot_y"], r["rot_z"]])
        near = np.hypot(e["rel"][2, 0], e["rel"][2, 1]) < 1e-4  # Euler extraction of the relative rotation is ill-conditioned only there
        if np.abs(z - e["rel"][:, 2]).max() > (1e-6 if near else 1e-9):
            out.fail("relative_orientation_z_axis_differs", f"query {key}: {z.tolist()} vs {e['rel'][:, 2].tolist()}")
            return out
        M = oracle.R_cc(r["phi"], r["theta"], r["psi"])
        if np.abs(M - e["rel"]).max() > (1e-6 if near else 1e-9):
            out.fail("relative_orientation_angles_differ", f"query {key}: error {np.abs(M - e['rel']).max():.2e}")
            return out
    # same extraction positions, refined shifts (different per particle): the answer must follow the complete positions
    rng_r = np.random.default_rng(len(A) * 7 + k)
    A3, B3 = A.copy(), B.copy()
    A3[:, [IX["shift_x"], IX["shift_y"], IX["shift_z"]]] += np.round(rng_r.uniform(-3, 3, (len(A), 3)), 2)
    if case["same"]:
        B3 = A3.copy()
    else:
        B3[:, [IX["shift_x"], IX["shift_y"], IX["shift_z"]]] += np.round(rng_r.uniform(-3, 3, (len(B), 3)), 2)
    exp3, tie3 = brute(A3, B3, k, px)
    if not tie3:
        # the SAME two list objects that were just analysed get their refined shifts written into their tables in place
        # and are analysed again: the second analysis describes the lists as they are now
        s3 = None
        ok_a, ma3 = call(out, "Motl", lambda: cryomotl.Motl(mk(A, case["a"])))
        ok_b, mb3 = (ok_a, ma3) if case["same"] else call(out, "Motl", lambda: cryomotl.Motl(mk(B, case["b"])))
        if ok_a and ok_b:
            call(out, "get_nn_stats(first analysis)", lambda: nnana.get_nn_stats(ma3, mb3, pixel_size=px, nn_number=k))
            sh_cols = ["shift_x", "shift_y", "shift_z"]
            ma3.df.loc[:, sh_cols] = A3[:, [IX[c_] for c_ in sh_cols]]
            if not case["same"]:
                mb3.df.loc[:, sh_cols] = B3[:, [IX[c_] for c_ in sh_cols]]
            ok_s, s3 = call(out, "get_nn_stats(after in-place refinement)", lambda: nnana.get_nn_stats(ma3, mb3, pixel_size=px, nn_number=k))
            s3 = s3 if ok_s else None
        if s3 is not None:
            rows3 = table_rows(s3)
            okr = set(rows3) == set(exp3) and all(rows3[q]["subtomo_nn_idx"] == e["nn_id"] and abs(rows3[q]["distance"] - e["dist"]) <= 1e-9 * max(1.0, abs(e["dist"])) for q, e in exp3.items())
            out.check(okr, "refined_shifts:neighbours_or_distances_do_not_follow_complete_positions", "second call with the same x,y,z and other shifts")
    # metamorphic: rigid motion of every tomogram
    Q = oracle.cube_rotations()[case["q"]].astype(float) if isinstance(case["q"], int) else oracle.R_cc(*case["q"])
    A2, B2 = move(A, Q, case["t"]), move(B, Q, case["t"])
    exp2, tie2 = brute(A2, B2, k, px)
    if tie2 or any(exp2[key_]["nn_id"] != exp[key_]["nn_id"] for key_ in exp):
        return out  # the motion itself created a numerical tie; the direct comparison above already stands
    s2 = stats_for(A2, B2)
    if s2 is None:
        return out
    rows2 = table_rows(s2)
    if not out.check(set(rows2) == set(rows), "moved:row_set_changed", ""):
        return out
    scale = max(1.0, float(np.abs(case["t"]).max()), float(np.abs(pose(A)[0]).max()))
    for key in rows:
        r, r2 = rows[key], rows2[key]
        if r2["subtomo_nn_idx"] != r["subtomo_nn_idx"]:
            out.fail("moved:neighbour_changed", f"query {key}")
            return out
        if abs(r2["distance"] - r["distance"]) > 1e-9 * scale * max(1.0, px) * 1e3:
            out.fail("moved:distance_changed", f"query {key}: {r['distance']!r} -> {r2['distance']!r}")
            return out
        a1 = np.array([r["coord_rx"], r["coord_ry"], r["coord_rz"]])
        a2 = np.array([r2["coord_rx"], r2["coord_ry"], r2["coord_rz"]])
        if np.abs(a1 - a2).max() > 1e-6 * scale * max(1.0, px):
            out.fail("moved:particle_frame_offset_changed", f"query {key}: {a1.tolist()} -> {a2.tolist()}")
            return out
        if abs(r2["angular_distance"] - r["angular_distance"]) > 4e-5:
            out.fail("moved:angular_distance_changed", f"query {key}")
            return out
        if np.abs(oracle.R_cc(r["phi"], r["theta"], r["psi"]) - oracle.R_cc(r2["phi"], r2["theta"], r2["psi"])).max() > 1e-6:
            out.fail("moved:relative_orientation_changed", f"query {key}")
            return out
    return out


# rejected calls that run before every case (vlib/faults.py): nothing they leave behind - module state, library options,
# stray files - may make the valid calls of the case violate the statement
from vlib import faults as _faults  # noqa: E402

fault_calls = _faults.for_property(ID)
