"""C19 - chain tracing partitions particles into simple, distance-respecting chains."""
import math
import os

import numpy as np
from hypothesis import strategies as st

from vlib import gen, oracle
from vlib.runner import Outcome, call

ID = "C19"
RULE = (
    "Paired entry/exit tables (2..40 particles drawn element-wise, so that failures shrink by deleting particles; 1..3 tomograms; identical ids "
    "and row order; exit site = entry site + a drawn displacement) from two families: dense clouds in a box of 0.8..5 x "
    "max_distance with displacements comparable to max_distance (this family reaches the suffix / prefix / both-sides / "
    "cut branches), and constructive polylines (consecutive members placed so that exit_i -> entry_{i+1} is within a "
    "drawn fraction of max_distance) with free particles and rows permuted so that chains are discovered from the "
    "middle, corpus-based mutation of saved branch-reaching inputs (jitter, row permutation, dropped/duplicated particle, threshold scaling, duplication into a second tomogram), and integer-lattice layouts whose exit->entry distances hit min_distance / max_distance exactly (3-4-5 steps); max_distance 1..20, min_distance in {0, 0.2..1}. Oracle (validity): output ids == input ids as multisets; "
    "per (tomogram, object) order numbers are exactly 1..m; for consecutive members a,b dist(exit_a, entry_b) lies in "
    "(min, max] and equals a's recorded distance (1e-6); all other fields of every particle unchanged. Non-trivial: a "
    "merge branch fired (observed by wrapping ribana.add_chain_suffix/add_chain_prefix from the harness); labels report "
    "which branch."
)
ASSUMPTIONS = [
    "real-valued cases with an exit->entry distance (between different particles) within 1e-9 of 0, min_distance or max_distance are filtered (boundary ties); on the integer lattice family exact hits are decidable and kept (only coincident sites are dropped)",
    "object numbers identify chains per tomogram (they restart in every tomogram), so 'chain' = (tomogram, object)",
]
BUDGET = {"quick": {"examples": 1400, "seconds": 85}, "thorough": {"examples": 3000, "seconds": 540}}

C = oracle.MOTL_COLUMNS
IX = {c: i for i, c in enumerate(C)}
unit = st.floats(0, 1, allow_nan=False, width=32).map(lambda v: round(float(v), 4))
sym = st.floats(-1, 1, allow_nan=False, width=32).map(lambda v: round(float(v), 4))


pt = st.tuples(unit, unit, unit, sym, sym, sym, st.sampled_from([1, 1, 1, 2]))


@st.composite
def cloud_case(draw):
    pts = draw(st.lists(pt, min_size=2, max_size=draw(st.sampled_from([8, 14, 25, 40]))))
    return {"family": "cloud", "dmax": draw(st.sampled_from([1.0, 2.0, 3.0, 5.0, 8.0, 20.0])), "dmin": draw(st.sampled_from([0.0, 0.0, 0.2, 0.5, 1.0])),
            "box": draw(st.one_of(st.floats(0.8, 2.5, allow_nan=False), st.floats(1.5, 5.0, allow_nan=False))), "disp": draw(st.floats(0.2, 1.5, allow_nan=False)),
            "entry": [list(p[:3]) for p in pts], "dvec": [list(p[3:6]) for p in pts], "tomo": [p[6] for p in pts],
            "bulk": None, "ids_seed": draw(st.integers(0, 10**6))}


@st.composite
def poly_case(draw):
    return {"family": "poly", "dmax": draw(st.sampled_from([2.0, 3.0, 5.0])), "dmin": draw(st.sampled_from([0.0, 0.0, 0.5])),
            "seed": draw(st.integers(0, 2**31 - 1)), "n_chains": draw(st.integers(1, 4)), "max_len": draw(st.integers(1, 7)),
            "free": draw(st.integers(0, 4)), "step_lo": draw(st.floats(0.3, 0.8, allow_nan=False)), "jitter": draw(st.floats(0.1, 1.0, allow_nan=False)),
            "ntomo": draw(st.integers(1, 3)), "ids_seed": draw(st.integers(0, 10**6))}


@st.composite
def lattice_case(draw):
    """integer coordinates and integer thresholds: exit->entry distances hit min_distance / max_distance exactly (3-4-5 triangles)."""
    n = draw(st.integers(2, 9))
    steps = [[3, 4, 0], [4, 3, 0], [0, 3, 4], [5, 0, 0], [0, 0, 5], [3, 0, 4], [6, 8, 0], [1, 2, 2], [2, 2, 1], [2, 3, 6], [4, 4, 2], [1, 0, 0], [2, 0, 0]]
    pts = [[draw(st.integers(0, 12)), draw(st.integers(0, 12)), draw(st.integers(0, 12))] for _ in range(n)]
    # exit of particle i sits at a lattice step before the entry of particle (i+1) mod n, or anywhere
    ex = []
    for i in range(n):
        if draw(st.integers(0, 3)) > 0:
            stp = draw(st.sampled_from(steps))
            sg = [draw(st.sampled_from([1, -1])) for _ in range(3)]
            nxt = pts[(i + 1) % n]
            ex.append([nxt[k] - sg[k] * stp[k] for k in range(3)])
        else:
            ex.append([draw(st.integers(0, 12)) for _ in range(3)])
    return {"family": "lattice", "dmax": float(draw(st.sampled_from([3, 5, 6, 7, 10]))), "dmin": float(draw(st.sampled_from([0, 1, 2, 3, 5]))),
            "entry": pts, "exit": ex, "tomo": [1 if draw(st.integers(0, 4)) else 2 for _ in range(n)], "ids_seed": draw(st.integers(0, 10**6))}


def _corpus():
    """saved inputs that reached the rare merge branches (committed regress files): seeds for mutation-based generation."""
    import glob, json, os

    out = []
    for f in sorted(glob.glob(os.path.join(os.path.dirname(os.path.dirname(os.path.abspath(__file__))), "regress", "C19", "*.json"))):
        c = json.load(open(f))["case"]
        if c.get("family") == "explicit":
            out.append(c)
    return out or [{"family": "explicit", "dmax": A1["dmax"], "dmin": 0.0, "entry": A1["entry"], "exit": A1["exit"], "tomo": [1] * 5, "ids_seed": 0}]


@st.composite
def mutate_case(draw):
    """corpus-based: a saved branch-reaching input, perturbed (jitter, row permutation, dropped / duplicated particle, threshold scale)."""
    corpus = _corpus()
    return {"family": "mutate", "base": draw(st.integers(0, len(corpus) - 1)), "seed": draw(st.integers(0, 2**31 - 1)),
            "jitter": draw(st.sampled_from([0.0, 0.0, 0.005, 0.02, 0.08, 0.2])), "permute": draw(st.booleans()),
            "drop": draw(st.one_of(st.none(), st.integers(0, 40))), "dup": draw(st.one_of(st.none(), st.integers(0, 40))),
            "scale": draw(st.sampled_from([1.0, 1.0, 0.97, 1.03, 0.9, 1.1])), "dmin": draw(st.sampled_from([0.0, 0.0, 0.3])),
            "second_tomo": draw(st.booleans()), "ids_seed": draw(st.integers(0, 10**6))}


STORES = [None, None, None, ["object_id", "geom3"], ["geom5", "geom2"], ["geom5", "geom3"]]


def strategy(tier):
    base = st.one_of(cloud_case(), cloud_case(), poly_case(), lattice_case(), mutate_case(), mutate_case())
    return st.tuples(base, st.sampled_from(STORES), st.sampled_from([0, 0, 0, 230100, 1000000])).map(lambda t: dict(t[0], store=t[1], tomo_base=t[2]))


A1 = {"entry": [[2.54616, 5.11083, 5.730353], [8.538923, 9.564001, 3.377749], [6.229608, 6.787277, 1.110418], [4.690384, 2.070112, 7.364714], [3.46794, 8.013815, 2.112646]],
      "exit": [[5.300474, 5.754695, 4.637797], [8.793605, 9.158229, 1.625453], [8.073657, 4.518835, 2.831005], [6.690239, 1.900532, 3.765557], [5.129091, 8.457328, 0.790013]], "dmax": 5.0}
A2 = {"entry": [[2.779851, 0.449723, 3.186835], [4.713658, 1.361058, 5.554026], [4.65137, 1.897695, 2.128387], [5.22809, 0.987243, 2.74468], [4.263455, 2.411338, 3.192997], [5.259612, 0.703165, 4.417743], [2.84557, 3.970732, 1.156044]],
      "exit": [[4.074216, 1.563817, 3.816536], [2.168994, 3.534941, 6.711364], [3.102555, 4.376747, 2.36804], [6.036714, 2.062523, 3.119326], [3.940414, 1.985239, 5.065493], [8.203067, 3.773889, 1.822931], [3.863693, 2.903066, 3.251181]], "dmax": 2.0}


def corner_cases(tier):
    for A in (A1, A2):
        yield {"family": "explicit", "dmax": A["dmax"], "dmin": 0.0, "entry": A["entry"], "exit": A["exit"], "tomo": [1] * len(A["entry"]), "ids_seed": 0}
    yield {"family": "explicit", "dmax": 3.0, "dmin": 0.0, "entry": [[0, 0, 0], [2, 0, 0], [4, 0, 0], [20, 0, 0]], "exit": [[1, 0, 0], [3, 0, 0], [5, 0, 0], [21, 0, 0]],
           "tomo": [1, 1, 1, 1], "ids_seed": 3}
    yield {"family": "explicit", "dmax": 3.0, "dmin": 0.0, "entry": [[4, 0, 0], [0, 0, 0], [2, 0, 0], [0, 0, 0]], "exit": [[5, 0, 0], [1, 0, 0], [3, 0, 0], [1, 0, 0]],
           "tomo": [1, 1, 1, 2], "ids_seed": 4}


def build(case):
    fam = case["family"]
    if fam == "mutate":
        base = _corpus()[case["base"] % len(_corpus())]
        rng = np.random.default_rng(case["seed"])
        E, X, tomo = np.array(base["entry"], float), np.array(base["exit"], float), np.array(base["tomo"], float)
        dm = base["dmax"]
        E = E + rng.normal(0, 1, E.shape) * case["jitter"] * dm
        X = X + rng.normal(0, 1, X.shape) * case["jitter"] * dm
        if case["dup"] is not None:
            j = case["dup"] % len(E)
            off = rng.normal(0, 0.3 * dm, 3)
            E, X, tomo = np.vstack([E, E[j] + off]), np.vstack([X, X[j] + off]), np.append(tomo, tomo[j])
        if case["drop"] is not None and len(E) > 2:
            j = case["drop"] % len(E)
            E, X, tomo = np.delete(E, j, 0), np.delete(X, j, 0), np.delete(tomo, j)
        if case["permute"]:
            perm = rng.permutation(len(E))
            E, X, tomo = E[perm], X[perm], tomo[perm]
        if case["second_tomo"]:  # the same configuration a second time in another tomogram, shifted: chains must not interact
            E, X, tomo = np.vstack([E, E + 3.0]), np.vstack([X, X + 3.0]), np.concatenate([tomo, tomo + 1])
    elif fam in ("explicit", "lattice"):
        E, X, tomo = np.array(case["entry"], float), np.array(case["exit"], float), np.array(case["tomo"], float)
    elif fam == "cloud":
        L = case["box"] * case["dmax"]
        E = np.array(case["entry"], float) * L
        X = E + np.array(case["dvec"], float) * case["disp"] * case["dmax"]
        tomo = np.array(case["tomo"], float)
        if case.get("bulk"):
            rng = np.random.default_rng(case["bulk"]["seed"])
            nb = case["bulk"]["n"]
            Eb = rng.uniform(0, L * 1.5, (nb, 3))
            E = np.vstack([E, Eb])
            X = np.vstack([X, Eb + rng.normal(0, 1, (nb, 3)) * case["disp"] * case["dmax"] * 0.6])
            tomo = np.concatenate([tomo, rng.integers(1, 3, nb).astype(float)])
    else:
        rng = np.random.default_rng(case["seed"])
        dmax = case["dmax"]
        pe, px_, tm = [], [], []
        for c in range(case["n_chains"]):
            L = int(rng.integers(1, case["max_len"] + 1))
            p = rng.uniform(0, 12, 3)
            t = int(rng.integers(1, case["ntomo"] + 1))
            for i in range(L):
                e = p
                x = e + rng.normal(size=3) * case["jitter"]
                pe.append(e); px_.append(x); tm.append(t)
                step = rng.normal(size=3)
                step *= dmax * rng.uniform(case["step_lo"], 1.1) / np.linalg.norm(step)
                p = x + step
        for _ in range(case["free"]):
            e = rng.uniform(0, 12, 3)
            pe.append(e); px_.append(e + rng.normal(size=3) * case["jitter"]); tm.append(int(rng.integers(1, case["ntomo"] + 1)))
        E, X, tomo = np.array(pe), np.array(px_), np.array(tm, float)
        perm = rng.permutation(len(E))
        E, X, tomo = E[perm], X[perm], tomo[perm]
    n = len(E)
    tomo = tomo + case.get("tomo_base", 0)  # date-coded / six-digit tomogram numbers that differ by 1
    ids = np.random.default_rng(case["ids_seed"]).permutation(np.arange(1, 3 * n + 1))[:n].astype(float) if case["ids_seed"] else np.arange(1, n + 1, dtype=float)
    return E, X, tomo, ids


_calls = []


def _install():
    from cryocat import ribana

    if getattr(ribana, "_verif_wrapped", False):
        return
    s0, p0 = ribana.add_chain_suffix, ribana.add_chain_prefix

    def ws(chain_df, motl, traced_df, subtomo_id, current_dist, *a, **k):
        # classify before the call: does the suffix attach to an inner particle (possible tail cut)?
        r = s0(chain_df, motl, traced_df, subtomo_id, current_dist, *a, **k)
        _calls.append("suffix_accepted" if r else "suffix_rejected")
        return r

    def wp(chain_df, motl, traced_df, subtomo_id, current_dist, *a, **k):
        both = k.get("class_max") is not None
        r = p0(chain_df, motl, traced_df, subtomo_id, current_dist, *a, **k)
        _calls.append(("prefix_rejected" if r == -1 else "prefix_performed") + ("_both_sides" if both else ""))
        return r

    ribana.add_chain_suffix, ribana.add_chain_prefix = ws, wp
    ribana._verif_wrapped = True


def ties(E, X, tomo, dmax, dmin, lattice):
    """returns (filtered_reason|None, exact_hit)"""
    hit = False
    for t in np.unique(tomo):
        sel = tomo == t
        D = np.linalg.norm(X[sel][:, None, :] - E[sel][None, :, :], axis=2)
        Do = D[~np.eye(sel.sum(), dtype=bool)]
        if not Do.size:
            continue
        if lattice:
            if np.any(Do == 0):
                return "coincident_sites", hit
            if np.any(Do == dmax) or np.any(Do == dmin):
                hit = True
        elif np.any(np.abs(Do - dmax) < 1e-9) or np.any(np.abs(Do - dmin) < 1e-9) or np.any(Do < 1e-9):
            return "boundary_tie", hit
    return None, hit


def trace_and_validate(out, E, X, tomo, ids, dmax, dmin, tag="", store=None):
    """one call of trace_chains + the validity predicate; returns the set of branches that fired (None if the call raised)."""
    import pandas as pd
    from cryocat import cryomotl, ribana

    n = len(E)

    def table(P):
        a = np.zeros((n, 20))
        # a site is the particle's complete position x + shift: most lists carry refined (non-zero) shifts
        S = np.zeros((n, 3))
        if int(ids[0]) % 3 != 0:
            S = np.stack([((ids * (37 + 6 * k_)) % 11 - 5) / 4.0 for k_ in range(3)], axis=1)
        a[:, [IX["x"], IX["y"], IX["z"]]] = P - S
        a[:, [IX["shift_x"], IX["shift_y"], IX["shift_z"]]] = S
        a[:, IX["subtomo_id"]] = ids
        a[:, IX["tomo_id"]] = tomo
        a[:, IX["score"]] = 0.5
        a[:, IX["geom1"]] = np.arange(n) + 100  # tag
        a[:, IX["class"]] = 1 + np.arange(n) % 3
        a[:, IX["phi"]] = np.arange(n) * 7.0
        return a

    aE, aX = table(E), table(X)
    dfE, dfX = pd.DataFrame(aE, columns=C), pd.DataFrame(aX, columns=C)
    del _calls[:]
    c_obj, c_ord = (store or ["object_id", "geom2"])
    if store is None:
        ok, res = call(out, "trace_chains", lambda: ribana.trace_chains(cryomotl.Motl(dfE.copy()), cryomotl.Motl(dfX.copy()), dmax, dmin))
    else:  # the chain number / order number are stored in other columns on request
        ok, res = call(out, "trace_chains", lambda: ribana.trace_chains(cryomotl.Motl(dfE.copy()), cryomotl.Motl(dfX.copy()), dmax, dmin, store_idx1=c_obj, store_idx2=c_ord))
    branches = sorted(set(_calls))
    btag = tag + ("+".join(b for b in branches if b != "suffix_rejected" and not b.startswith("prefix_rejected")) or "no_merge")
    if not ok:
        sig, det = out.violations[-1]
        out.violations[-1] = (f"{sig}:{btag}", det)
        return branches
    o = res.df
    if not out.check(sorted(o.columns) == sorted(C) and len(o.columns) == 20, "columns", list(o.columns)):
        return branches
    got = o[C].to_numpy(dtype=float)
    if sorted(got[:, IX["subtomo_id"]].tolist()) != sorted(ids.tolist()):
        out.fail(f"particles_lost_or_duplicated:{btag}", f"{len(got)} rows for {n} particles")
        return branches
    row_of = {ids[i]: i for i in range(n)}
    skip = {IX[c_obj], IX[c_ord], IX["geom4"]}
    for r in got:
        i = row_of[r[IX["subtomo_id"]]]
        if any(r[j] != aE[i, j] for j in range(20) if j not in skip):
            out.fail(f"other_field_changed:{btag}", f"particle {r[IX['subtomo_id']]}")
            return branches
    chains = {}
    for r in got:
        chains.setdefault((r[IX["tomo_id"]], r[IX[c_obj]]), []).append(r)
    for (t, obj), members in sorted(chains.items()):
        members.sort(key=lambda r: r[IX[c_ord]])
        orders = [r[IX[c_ord]] for r in members]
        if orders != [float(v) for v in range(1, len(members) + 1)]:
            dup = len(set(orders)) < len(orders)
            out.fail(f"order_numbers_{'repeated' if dup else 'not_1_to_m'}:{btag}", f"tomogram {t} chain {obj}: particles {[int(r[IX['subtomo_id']]) for r in members]} orders {orders}")
            return branches
        for ra, rb in zip(members[:-1], members[1:]):
            ia, ib = row_of[ra[IX["subtomo_id"]]], row_of[rb[IX["subtomo_id"]]]
            d = float(np.linalg.norm(X[ia] - E[ib]))
            if not (dmin < d <= dmax):
                out.fail(f"link_outside_min_max:{btag}", f"tomogram {t} chain {obj}: {int(ids[ia])}->{int(ids[ib])} distance {d:.4f} not in ({dmin}, {dmax}]")
                return branches
            if abs(d - ra[IX["geom4"]]) > 1e-6:
                out.fail(f"recorded_distance_wrong:{btag}", f"tomogram {t} chain {obj}: link {int(ids[ia])}->{int(ids[ib])} is {d:.4f}, recorded {ra[IX['geom4']]:.4f}")
                return branches
    return branches


def run(case):
    out = Outcome()
    _install()
    E, X, tomo, ids = build(case)
    n = len(E)
    if case["family"] == "mutate":
        base = _corpus()[case["base"] % len(_corpus())]
        case = dict(case, dmax=base["dmax"] * case["scale"])
    dmax, dmin = float(case["dmax"]), float(case["dmin"])
    if n < 2:
        out.filtered = "fewer_than_2_particles"
        return out
    lattice = case["family"] == "lattice"
    reason, hit = ties(E, X, tomo, dmax, dmin, lattice)
    if reason:
        out.filtered = reason
        return out
    if hit:
        out.label("exact_hit_of_min_or_max_distance")
    store = case.get("store")
    branches = trace_and_validate(out, E, X, tomo, ids, dmax, dmin, store=store)
    if store:
        out.label("store:" + "+".join(store))
    out.label(f"family:{case['family']}", f"tomograms:{len(np.unique(tomo))}", *(f"branch:{b}" for b in branches))
    out.nontrivial = any(b in ("suffix_accepted", "prefix_performed", "prefix_performed_both_sides") for b in branches)
    if out.violations or lattice or case.get("single_call"):
        return out
    # the same entry sites with other exit sites, in the same process: the second answer must follow the second input
    rng = np.random.default_rng(case["ids_seed"] + 17)
    X2 = X + rng.normal(0, 0.35 * dmax, X.shape)
    reason2, _ = ties(E, X2, tomo, dmax, dmin, False)
    if reason2 is None:
        trace_and_validate(out, E, X2, tomo, ids, dmax, dmin, tag="second_call_same_entries:", store=store)
        out.label("second_call")
    return out


def extra_campaign(tier, seed, stats, known_open):
    """Coverage-guided atheris campaign (cryocat.ribana instrumented) over explicit configurations on a 1/64 grid; the
    saved branch-reaching inputs, re-encoded, are the seed corpus.  Results are merged into the run's statistics."""
    import importlib.util

    from vlib import fuzzrun

    seeds = []
    try:
        enc_path = os.path.join(os.path.dirname(os.path.dirname(os.path.abspath(__file__))), "fuzz", "c19_seed_encoder.py")
        spec = importlib.util.spec_from_file_location("c19_seed_encoder", enc_path)
        mod = importlib.util.module_from_spec(spec)
        spec.loader.exec_module(mod)
        for c in _corpus() + [c for c in corner_cases(tier) if len(c["entry"]) <= 24]:
            if len(c["entry"]) <= 24:
                seeds.append(mod.encode(c, STORES))
    except (OSError, ImportError):
        seeds = []
    if tier == "quick":  # ~25 executions per second and process: too few in the quick budget to be worth the start-up
        return {"fuzz_campaign": "thorough tier only"}
    return fuzzrun.campaign("c19_chain_fuzz.py", "atheris/libFuzzer on cryocat.ribana (explicit entry/exit configurations)", seeds, stats, known_open,
                            runs=20000, seconds=300, seed=seed, max_len=400, parallel=int(os.environ.get("VERIF_JOBS", "16")))


# rejected calls that run before every case (vlib/faults.py): nothing they leave behind - module state, library options,
# stray files - may make the valid calls of the case violate the statement
from vlib import faults as _faults  # noqa: E402

fault_calls = _faults.for_property(ID)
