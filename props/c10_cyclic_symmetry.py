"""C10 - cyclic symmetry expansion places subunits on the symmetry orbit."""
import numpy as np
from hypothesis import strategies as st

from vlib import gen, oracle
from vlib.runner import Outcome, call

ID = "C10"
RULE = (
    "Particle tables (1..10 rows element-wise, optional PRNG bulk up to 100; unique unsorted ids, any pose incl. gimbal "
    "lock, positions of either sign, non-zero shifts, column permutation, non-default row labels) x n in 1..64 given as "
    "int, float, 'Cn' or 'cn' x subunit offset s (general / on the axis (0,0,z) / zero / in the xy-plane). Oracle: "
    "exactly n outputs per parent (geom5 = parent id), subunit indices geom2 = 1..n each once per parent; the output "
    "with geom2 = k+1 has orientation R_parent Rz(360k/n) (explicit matrices, 1e-9; 1e-6 within 1e-4 rad of gimbal lock) and complete position p_parent + "
    "R_out s (1e-9 relative; + 1e-6 |s| near gimbal lock), so p_out - R_out s is the parent's centre for all siblings; subtomogram numbers are unique; "
    "x,y,z integral with |shift| <= 0.5; every other field copied from the parent. Non-trivial: (n does not divide 360 "
    "or n > 12) and s off the axis."
)
ASSUMPTIONS = [
    "input subtomogram numbers are unique (the parent is recorded by number)",
    "the order of output rows is not part of the statement; outputs are matched to parents through geom5 and to subunit index through geom2",
]
BUDGET = {"quick": {"examples": 1100, "seconds": 85}, "thorough": {"examples": 2500, "seconds": 540}}
EXHAUSTIVE = "every n in 1..64 in each of the four spellings (int, float, 'Cn', 'cn') on a fixed 3-particle list with a general offset"

offset = st.one_of(
    st.tuples(gen.finite(-30, 30), gen.finite(-30, 30), gen.finite(-30, 30)).map(list),
    st.tuples(st.just(0.0), st.just(0.0), gen.finite(-30, 30)).map(list),
    st.sampled_from([[0.0, 0.0, 0.0], [10.0, 0.0, 0.0], [0.0, 7.0, 0.0], [3.0, 0.0, 1.0], [-4.0, 4.0, -2.5], [0.45, 0.0, 0.0], [0.6, 0.2, -0.2]]),
    # offsets on the four half-axes and the diagonals of the particle's x,y plane (angles 0, 90, 180, 270, 45, ... of the polar form), with +0.0 and -0.0
    st.tuples(st.sampled_from([[1, 0], [-1, 0], [0, 1], [0, -1], [1, 1], [-1, 1], [-1, -1], [1, -1]]), st.sampled_from([0.5, 3.0, 7.5, 10.0, 24.0]),
              st.sampled_from([0.0, -0.0]), st.sampled_from([0.0, 4.0, -2.5])).map(lambda t: [t[0][0] * t[1] if t[0][0] else t[2], t[0][1] * t[1] if t[0][1] else t[2], t[3]]),
    st.tuples(gen.finite(-1, 1), gen.finite(-1, 1), gen.finite(-1, 1)).map(list),  # sub-pixel offsets: only some subunits need recentring
)
POSE = ["x", "y", "z", "shift_x", "shift_y", "shift_z", "phi", "theta", "psi"]
SKIP = set(POSE) | {"subtomo_id", "geom2", "geom5"}


def strategy(tier):
    return st.fixed_dictionaries({
        "table": gen.table(1, 10, bulk_max=100, index_kinds=("default", "default", "reversed", "offset", "strided", "rotated", "repeated")),
        "n": st.one_of(st.integers(1, 64), st.integers(1, 14), st.sampled_from([7, 11, 13, 14, 17, 49, 64])),
        "spelling": st.sampled_from(["int", "float", "C", "c"]),
        "s": offset,
        "s_as": st.sampled_from(["list", "list", "array", "tuple"]),
    })


def corner_cases(tier):
    rows = [[0.9, 1, 2, 5, 2, 3, 0, 10.0, 20.0, 30.0, 0.25, -0.5, 1.75, 4, 5, 6, 30.0, 60.0, 45.0, 1],
            [0.1, 1, 2, 9, 1, 3, 0, -10.5, 2.5, 7.0, 0.5, 0.5, -0.5, 7, 8, 9, -100.0, 10.0, 180.0, 2],
            [0.4, 3, 2, 2, 1, 1, 0, 100.0, 50.0, 25.0, 0.0, 0.0, 0.0, 1, 1, 1, 12.0, 200.0, 77.0, 3]]
    t = {"cols": oracle.MOTL_COLUMNS, "rows": rows, "bulk": None, "index": "default"}
    for n, sp in ((7, "int"), (4, "C"), (1, "int"), (14, "c"), (6, "float")):
        yield {"table": t, "n": n, "spelling": sp, "s": [3.0, 0.0, 1.0]}
    if tier == "thorough":
        for n in range(1, 65):
            for sp in ("int", "float", "C", "c"):
                yield {"table": t, "n": n, "spelling": sp, "s": [3.0, -2.0, 1.5]}


def run(case):
    from cryocat import cryomotl

    out = Outcome()
    df0 = gen.table_df(case["table"])
    n = int(case["n"])
    s = np.array(case["s"], float)
    sym = {"int": n, "float": float(n), "C": f"C{n}", "c": f"c{n}"}[case["spelling"]]
    N = len(df0)
    off_axis = bool(abs(s[0]) > 1e-12 or abs(s[1]) > 1e-12)
    out.label(f"spelling:{case['spelling']}", "n|360" if 360 % n == 0 else "n_not_dividing_360", "off_axis" if off_axis else "on_axis",
              f"index:{case['table'].get('index', 'default')}")
    out.nontrivial = (360 % n != 0 or n > 12) and off_axis
    ok, m = call(out, "Motl", lambda: cryomotl.Motl(df0.copy()))
    if not ok:
        return out
    before = m.df.copy()
    s_as = case.get("s_as", "list")
    s_arg = {"list": list(case["s"]), "array": np.array(case["s"], dtype=float), "tuple": tuple(case["s"])}[s_as]
    out.label(f"offset_as:{s_as}")
    if s_as == "array":
        # the caller's array serves a first call on a copy of the list; it must come back untouched and leave no trace
        call(out, "split_in_asymmetric_subunits", lambda: cryomotl.Motl(df0.copy()).split_in_asymmetric_subunits(sym, s_arg))
        out.check(np.array_equal(s_arg, np.array(case["s"], dtype=float)), "offset_argument_modified", f"{s_arg.tolist()} vs {case['s']}")
    ok, r = call(out, "split_in_asymmetric_subunits", lambda: m.split_in_asymmetric_subunits(sym, s_arg))
    if not ok:
        return out
    out.check(m.df.equals(before), "input_list_modified", "")
    if case["table"].get("index", "default") != "default" or n % 2:
        # two live results of the same request: the first is edited in place, the second must still be the orbit
        _faults.scribble(r)
        out.label("first_result_edited_before_second_call")
        ok, r = call(out, "split_in_asymmetric_subunits", lambda: m.split_in_asymmetric_subunits(sym, s_arg))
        if not ok:
            return out
        out.check(m.df.equals(before), "input_list_modified_by_editing_the_result", "")
    df = r.df
    C = oracle.MOTL_COLUMNS
    if not out.check(sorted(df.columns) == sorted(C) and len(df.columns) == 20, "columns", list(df.columns)):
        return out
    if not out.check(len(df) == n * N, "not_n_outputs_per_particle", f"{len(df)} rows for {N} particles x n={n}"):
        return out
    ids = df["subtomo_id"].to_numpy()
    # the statement asks for unique numbers; that they happen to be 1..nN today is not part of it
    out.check(len(set(ids.tolist())) == len(ids) and bool(np.all(np.isfinite(ids))), "subtomo_ids_not_unique", f"{sorted(ids.tolist())[:8]}")
    P0 = df0[["x", "y", "z"]].to_numpy() + df0[["shift_x", "shift_y", "shift_z"]].to_numpy()
    R0 = oracle.R_cc_batch(df0[["phi", "theta", "psi"]].to_numpy())
    parent_row = {float(v): i for i, v in enumerate(df0["subtomo_id"].to_numpy())}
    g5 = df["geom5"].to_numpy()
    g2 = df["geom2"].to_numpy()
    Rout = oracle.R_cc_batch(df[["phi", "theta", "psi"]].to_numpy())
    Pout = df[["x", "y", "z"]].to_numpy() + df[["shift_x", "shift_y", "shift_z"]].to_numpy()
    xyz = df[["x", "y", "z"]].to_numpy()
    sh = df[["shift_x", "shift_y", "shift_z"]].to_numpy()
    out.check(bool(np.all(xyz == np.round(xyz))), "xyz_not_integral", lambda: f"{xyz[xyz != np.round(xyz)][:3]}")
    out.check(bool(np.all(np.abs(sh) <= 0.5 + 1e-9 * np.maximum(1.0, np.abs(Pout)))), "shift_exceeds_half", lambda: f"{np.abs(sh).max()!r}")
    seen = {}
    others = [c for c in C if c not in SKIP]
    src_other = df0[others].to_numpy()
    got_other = df[others].to_numpy()
    for j in range(len(df)):
        pid = float(g5[j])
        if pid not in parent_row:
            out.fail("geom5_not_a_parent_id", f"row {j}: geom5 {pid}")
            return out
        i = parent_row[pid]
        k = g2[j]
        if not (k == round(k) and 1 <= k <= n):
            out.fail("geom2_not_in_1_to_n", f"row {j}: geom2 {k}")
            return out
        k = int(k) - 1
        if (i, k) in seen:
            out.fail("subunit_index_repeated_for_a_parent", f"parent {pid} subunit {k + 1}")
            return out
        seen[(i, k)] = j
        Rexp = R0[i] @ oracle.Rz(360.0 * k / n)
        # 1e-9 everywhere except within 1e-4 rad of gimbal lock, where re-encoding as Euler angles costs up to ~3e-8 rad
        near = np.hypot(Rexp[2, 0], Rexp[2, 1]) < 1e-4
        rtol = 1e-6 if near else 1e-9
        if np.abs(Rout[j] - Rexp).max() > rtol:
            # is it another sibling's orientation (label/row mix-up) or none of them?
            sib = [kk for kk in range(n) if np.abs(Rout[j] - R0[i] @ oracle.Rz(360.0 * kk / n)).max() <= rtol]
            out.fail("orientation_is_another_subunits" if sib else "orientation_not_parent_times_Rz",
                     f"parent {pid} subunit {k + 1}/{n}: matrix error {np.abs(Rout[j] - Rexp).max():.3e}" + (f" (matches subunit {sib[0] + 1})" if sib else ""))
            return out
        pexp = P0[i] + Rexp @ s
        if np.abs(Pout[j] - pexp).max() > 1e-9 * max(1.0, np.abs(pexp).max(), np.abs(s).max()) + (1e-6 * np.abs(s).max() if near else 0.0):
            out.fail("position_not_centre_plus_rotated_offset", f"parent {pid} subunit {k + 1}/{n}: got {Pout[j].tolist()} expected {pexp.tolist()}")
            return out
        if not np.array_equal(np.nan_to_num(got_other[j]), np.nan_to_num(src_other[i])):
            f = others[int(np.argwhere(np.nan_to_num(got_other[j]) != np.nan_to_num(src_other[i]))[0][0])]
            out.fail("other_field_not_copied_from_parent", f"parent {pid}: field {f}")
            return out
    out.check(len(seen) == n * N, "missing_subunits", f"{len(seen)} of {n * N}")
    return out


# rejected calls that run before every case (vlib/faults.py): nothing they leave behind - module state, library options,
# stray files - may make the valid calls of the case violate the statement
from vlib import faults as _faults  # noqa: E402

fault_calls = _faults.for_property(ID)
