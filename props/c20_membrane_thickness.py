"""C20 - membrane thickness pairs: one-to-one, forward, within range and cone."""
import math

import numpy as np
from hypothesis import strategies as st

from vlib import gen, oracle
from vlib.runner import Outcome, call

ID = "C20"
RULE = (
    "Point sets of 20..600 points on two sheets (planar, tilted, spherical cap; lattice or random sampling with jitter), "
    "unit normals with angular noise 0..10 degrees pointing towards the other sheet (a drawn fraction pointing away), "
    "surface labelling by sheet, interleaved at random, or with unlabelled points, voxel size 0.3..3, max thickness "
    "relative to the sheet gap, max angle 1..30 degrees, direction 1to2/2to1, the whole configuration moved by a drawn "
    "rigid motion. Oracle: admissible(s,t) := t on the target surface, 0 < |t-s| <= max/voxel, (t-s).n_s > 0 and "
    "angle((t-s), n_s) < max_angle, evaluated by brute force. The result must be a one-to-one partial matching of "
    "admissible pairs with thickness == |t-s| * voxel (5e-7 relative: float32 storage of the result, double precision before that; scenes up to thousands of voxels from the origin), no admissible pair with both ends "
    "unmatched, no matched source with a strictly closer admissible unmatched target, and - when all admissible "
    "distances are distinct - exactly the matching of an independent sort-and-assign greedy reference. Metamorphic: "
    "rigid motion leaves pairing and thickness unchanged; scaling voxel size and max thickness together scales "
    "thicknesses only; '2to1' equals '1to2' with swapped labels. The numba kernel find_matches_parallel must report per "
    "source exactly the admissible set (strict < on distance there). Non-trivial: >= 5 pairs, a source with >= 2 "
    "admissible targets, and an inadmissible candidate inside the distance ball but outside the cone."
)
ASSUMPTIONS = [
    "cases with a candidate within 1e-9 (relative) of the distance threshold or of the cone boundary are filtered (margin filter); cases with a source having >= 25 candidates are filtered (documented cap)",
    "the CUDA kernel cannot be executed here (no device); it received the same one-line cone repair as its CPU twins and is not exercised",
    "points are float64 arrays, normals unit length (as produced by the pipeline's surface extraction)",
]
BUDGET = {"quick": {"examples": 1000, "seconds": 85}, "thorough": {"examples": 2000, "seconds": 540}}


@st.composite
def strategy_case(draw):
    return {
        "seed": draw(st.integers(0, 2**31 - 1)),
        "shape": draw(st.sampled_from(["planar", "planar", "tilted", "cap"])),
        "sampling": draw(st.sampled_from(["lattice", "random"])),
        "n_side": draw(st.integers(4, 17)),  # points per sheet = n_side^2 (lattice) or about that (random)
        "spacing": draw(st.floats(1.0, 4.0, allow_nan=False)),
        "gap": draw(st.floats(3.0, 12.0, allow_nan=False)),
        "jitter": draw(st.floats(0.0, 0.6, allow_nan=False)),
        "normal_noise": draw(st.floats(0.0, 10.0, allow_nan=False)),
        "away_fraction": draw(st.sampled_from([0.0, 0.0, 0.1, 0.5])),
        "labelling": draw(st.sampled_from(["by_sheet", "by_sheet", "interleaved", "with_unlabelled"])),
        "voxel": draw(st.one_of(st.floats(0.3, 3.0, allow_nan=False), st.just(1.0))),
        "max_rel": draw(st.floats(0.8, 2.5, allow_nan=False)),  # max thickness in units of the gap
        "max_angle": draw(st.one_of(st.floats(1.0, 30.0, allow_nan=False), st.sampled_from([5.0, 10.0, 30.0]))),
        "direction": draw(st.sampled_from(["1to2", "2to1"])),
        "q": draw(gen.euler()),
        "t": [draw(st.one_of(gen.finite(-50, 50), gen.finite(-3000, 3000))) for _ in range(3)],
        "origin": draw(st.sampled_from([0.0, 0.0, 400.0, 2500.0])),
        "scale": draw(st.sampled_from([2.0, 0.5, 3.7])),
    }


def strategy(tier):
    return strategy_case()


def corner_cases(tier):
    yield {"seed": 1, "shape": "planar", "sampling": "lattice", "n_side": 6, "spacing": 2.0, "gap": 5.0, "jitter": 0.2, "normal_noise": 2.0, "away_fraction": 0.0,
           "labelling": "by_sheet", "voxel": 1.5, "max_rel": 1.6, "max_angle": 5.0, "direction": "1to2", "q": [0, 0, 0], "t": [0, 0, 0], "scale": 2.0}
    yield {"seed": 2, "shape": "tilted", "sampling": "random", "n_side": 8, "spacing": 1.5, "gap": 6.0, "jitter": 0.3, "normal_noise": 5.0, "away_fraction": 0.1,
           "labelling": "interleaved", "voxel": 0.8, "max_rel": 2.0, "max_angle": 20.0, "direction": "2to1", "q": [30, 70, 110], "t": [5, -3, 9], "scale": 0.5}


def build(c):
    rng = np.random.default_rng(c["seed"])
    k = c["n_side"]
    sp, gap = c["spacing"], c["gap"]
    if c["sampling"] == "lattice":
        u, v = np.meshgrid(np.arange(k) * sp, np.arange(k) * sp, indexing="ij")
        uv1 = np.column_stack([u.ravel(), v.ravel()])
        uv2 = uv1 + rng.uniform(0, sp, 2)
    else:
        uv1 = rng.uniform(0, k * sp, (k * k, 2))
        uv2 = rng.uniform(0, k * sp, (k * k, 2))

    def lift(uv, z0):
        if c["shape"] == "cap":
            R = 6.0 * k * sp
            cen = np.array([k * sp / 2, k * sp / 2])
            r2 = ((uv - cen) ** 2).sum(axis=1)
            rad = R + z0
            z = np.sqrt(np.maximum(rad * rad - r2, 0.0)) - R
            P = np.column_stack([uv, z])
            N = P - np.array([cen[0], cen[1], -R])
            N /= np.linalg.norm(N, axis=1)[:, None]
            return P, N
        P = np.column_stack([uv, np.full(len(uv), z0)])
        N = np.tile([0.0, 0.0, 1.0], (len(uv), 1))
        return P, N

    P1, N1 = lift(uv1, 0.0)
    P2, N2 = lift(uv2, gap)
    N2 = -N2  # the upper sheet looks down
    P = np.vstack([P1, P2]) + rng.normal(0, c["jitter"], (len(P1) + len(P2), 3))
    N = np.vstack([N1, N2])
    # angular noise on the normals
    if c["normal_noise"] > 0:
        for i in range(len(N)):
            ax = np.cross(N[i], rng.normal(size=3))
            ax /= np.linalg.norm(ax)
            a = math.radians(abs(rng.normal(0, c["normal_noise"] / 2)))
            N[i] = N[i] * math.cos(a) + np.cross(ax, N[i]) * math.sin(a)
    away = rng.random(len(N)) < c["away_fraction"]
    N[away] *= -1
    N /= np.linalg.norm(N, axis=1)[:, None]
    n1 = len(P1)
    sheet = np.concatenate([np.ones(n1, int), 2 * np.ones(len(P2), int)])
    lab = sheet.copy()
    if c["labelling"] == "interleaved":
        flip = rng.random(len(lab)) < 0.15
        lab[flip] = 3 - lab[flip]
    elif c["labelling"] == "with_unlabelled":
        lab[rng.random(len(lab)) < 0.15] = 0
    if c["shape"] == "tilted":
        T = oracle.R_cc(0.0, 35.0, 20.0)
        P, N = P @ T.T, N @ T.T
    perm = rng.permutation(len(P))
    return P[perm] + c.get("origin", 0.0), N[perm], lab[perm]


def admissible(P, N, src, tgt, maxv, cosmax):
    """brute force; returns dict s -> list of (dist, t), plus flags (margin hit, cone-rejected candidate present)."""
    adm = {}
    margin = False
    cone_rejected = False
    many = False
    ti = np.where(tgt)[0]
    for s in np.where(src)[0]:
        d = P[ti] - P[s]
        dist = np.linalg.norm(d, axis=1)
        proj = d @ N[s]
        inball = (dist <= maxv) & (dist > 0)
        if np.any(np.abs(dist - maxv) <= 1e-9 * maxv):
            margin = True
        with np.errstate(invalid="ignore", divide="ignore"):
            cosang = np.where(dist > 0, proj / np.where(dist > 0, dist, 1), -1)
        if np.any(inball & (np.abs(cosang - cosmax) <= 1e-9)):
            margin = True
        ok = inball & (proj > 0) & (cosang > cosmax)
        if np.any(inball & ~ok):
            cone_rejected = True
        if ok.sum() >= 25:
            many = True
        adm[s] = sorted((float(dist[j]), int(ti[j])) for j in np.where(ok)[0])
    return adm, margin, cone_rejected, many


def greedy(adm):
    allp = sorted((d, s, t) for s, lst in adm.items() for d, t in lst)
    sa, ta, m = set(), set(), {}
    for d, s, t in allp:
        if s not in sa and t not in ta:
            m[s] = (t, d)
            sa.add(s)
            ta.add(t)
    return m


def run(case):
    from cryocat import memthick

    out = Outcome()
    c = case
    P, N, lab = build(c)
    n = len(P)
    s1, s2 = lab == 1, lab == 2
    vox, ang = float(c["voxel"]), float(c["max_angle"])
    max_nm = c["max_rel"] * c["gap"] * vox
    maxv = max_nm / vox
    cosmax = math.cos(math.radians(ang))
    src, tgt = (s1, s2) if c["direction"] == "1to2" else (s2, s1)
    adm, margin, cone_rej, many = admissible(P, N, src, tgt, maxv, cosmax)
    if margin:
        out.filtered = "margin"
        return out
    if many:
        out.filtered = ">=25_candidates"
        return out
    out.label(f"shape:{c['shape']}", f"labelling:{c['labelling']}", f"direction:{c['direction']}", f"sampling:{c['sampling']}")

    def measure(P_, N_, a, b, vox_, max_nm_, direction):
        ok, r = call(out, "measure_thickness_cpu", lambda: memthick.measure_thickness_cpu(P_.copy(), N_.copy(), a.copy(), b.copy(), vox_, max_thickness_nm=max_nm_,
                                                                                          max_angle_degrees=ang, direction=direction, logger=None))
        return r if ok else None

    r = measure(P, N, s1, s2, vox, max_nm, c["direction"])
    if r is None:
        return out
    th, valid, pairs = r
    if not out.check(len(th) == n and len(valid) == n and len(pairs) == n, "result_shapes", f"{len(th)} {len(valid)} {len(pairs)}"):
        return out
    valid = np.asarray(valid, bool)
    matched = {int(s): int(pairs[s]) for s in np.where(valid)[0]}
    # 1. one-to-one partial matching of admissible pairs
    for s, t in matched.items():
        if not src[s]:
            out.fail("matched_point_not_a_source", f"point {s}")
            return out
        if not tgt[t]:
            out.fail("pair_target_not_on_target_surface", f"source {s} -> {t} (label {lab[t]})")
            return out
        d = float(np.linalg.norm(P[t] - P[s]))
        if t not in {t_ for d_, t_ in adm[s]}:
            proj = float((P[t] - P[s]) @ N[s])
            a_ = math.degrees(math.acos(max(-1, min(1, proj / d)))) if d > 0 else 0
            why = "beyond_max_thickness" if d > maxv else ("behind_the_source" if proj <= 0 else "outside_cone")
            out.fail(f"inadmissible_pair:{why}", f"source {s} -> target {t}: distance {d:.4f} (max {maxv:.4f}), angle to normal {a_:.2f} deg (max {ang})")
            return out
        if abs(float(th[s]) - d * vox) > 5e-7 * max(1e-3, d * vox):
            out.fail("thickness_not_distance_times_voxel", f"source {s}: {float(th[s])!r} vs {d * vox!r}")
            return out
    if len(set(matched.values())) != len(matched):
        out.fail("target_used_twice", f"{len(matched) - len(set(matched.values()))} repeated targets")
        return out
    out.check(bool(np.all(np.asarray(th)[~valid] == 0)), "thickness_set_for_unmatched_point", "")
    used_t = set(matched.values())
    # 2. maximality and greedy-consistency
    for s, lst in adm.items():
        if s not in matched:
            free = [t for d, t in lst if t not in used_t]
            if free:
                out.fail("admissible_pair_left_unmatched", f"source {s} and target {free[0]} are both unmatched although admissible")
                return out
        else:
            dm = float(np.linalg.norm(P[matched[s]] - P[s]))
            closer = [t for d, t in lst if d < dm * (1 - 1e-12) and t not in used_t]
            if closer:
                out.fail("matched_source_has_closer_free_target", f"source {s}: matched at {dm:.4f}, free admissible target {closer[0]} is closer")
                return out
    alld = sorted(d for lst in adm.values() for d, t in lst)
    distinct = all(b_ - a_ > 1e-9 * max(1.0, b_) for a_, b_ in zip(alld[:-1], alld[1:]))
    ref = greedy(adm)
    if distinct:
        out.label("distinct_distances")
        if {s: t for s, (t, d) in ref.items()} != matched:
            out.fail("matching_differs_from_greedy_by_distance", f"{len(ref)} reference pairs vs {len(matched)}")
            return out
    out.nontrivial = len(matched) >= 5 and any(len(v) >= 2 for v in adm.values()) and cone_rej
    # 3. numba candidate kernel: per source exactly the admissible set
    md = np.zeros((n, 25), dtype=np.float64)
    mi = np.full((n, 25), -1, dtype=np.int64)
    mc = np.zeros(n, dtype=np.int64)
    ok, _ = call(out, "find_matches_parallel", lambda: memthick.find_matches_parallel(P.copy(), N.copy(), src.copy(), tgt.copy(), np.where(tgt)[0].astype(np.int64),
                                                                                       float(maxv), float(cosmax), md, mi, mc))
    if ok:
        for s in np.where(src)[0]:
            got = set(int(x) for x in mi[s, :mc[s]])
            want = set(t for d, t in adm[s])
            if got != want:
                extra = sorted(got - want)
                why = "missing_candidates"
                if extra:
                    t = extra[0]
                    d = float(np.linalg.norm(P[t] - P[s]))
                    proj = float((P[t] - P[s]) @ N[s])
                    why = "beyond_max_thickness" if d > maxv else ("behind_the_source" if proj <= 0 else "outside_cone")
                out.fail(f"kernel_candidate_set_differs:{why}", f"source {s}: kernel {sorted(got)[:6]} vs admissible {sorted(want)[:6]}")
                return out
        out.check(bool(np.all(mc[~src] == 0)), "kernel_counts_for_non_sources", "")
    # 4. metamorphic relations
    Q = oracle.R_cc(*c["q"])
    P2, N2 = P @ Q.T + np.array(c["t"]), N @ Q.T
    adm2, margin2, _, _ = admissible(P2, N2, src, tgt, maxv, cosmax)
    if not margin2 and {s: [t for d, t in l] for s, l in adm2.items()} == {s: [t for d, t in l] for s, l in adm.items()} and distinct:
        r2 = measure(P2, N2, s1, s2, vox, max_nm, c["direction"])
        if r2 is not None:
            out.label("rigid_motion")
            if not (np.array_equal(np.asarray(r2[1], bool), valid) and np.array_equal(np.asarray(r2[2])[valid], np.asarray(pairs)[valid])):
                out.fail("pairing_changes_under_rigid_motion", f"{int(np.sum(np.asarray(r2[1], bool) != valid))} points differ")
                return out
            out.check(bool(np.all(np.abs(np.asarray(r2[0]) - np.asarray(th)) <= 1e-6 * np.maximum(1.0, np.abs(th)))), "thickness_changes_under_rigid_motion", "")
    k = float(c["scale"])
    if abs((max_nm * k) / (vox * k) - maxv) <= 1e-12 * maxv:
        r3 = measure(P, N, s1, s2, vox * k, max_nm * k, c["direction"])
        if r3 is not None:
            out.label("voxel_scaling")
            if not (np.array_equal(np.asarray(r3[1], bool), valid) and np.array_equal(np.asarray(r3[2])[valid], np.asarray(pairs)[valid])):
                out.fail("pairing_changes_with_voxel_size", "")
                return out
            out.check(bool(np.all(np.abs(np.asarray(r3[0]) - k * np.asarray(th)) <= 2e-5 * np.maximum(1.0, np.abs(k * np.asarray(th))))), "thickness_does_not_scale_with_voxel_size", "")
    other = "2to1" if c["direction"] == "1to2" else "1to2"
    r4 = measure(P, N, s2, s1, vox, max_nm, other)
    if r4 is not None:
        out.check(np.array_equal(np.asarray(r4[1], bool), valid) and np.array_equal(np.asarray(r4[2])[valid], np.asarray(pairs)[valid]), "direction_not_label_swap", "")
    return out


# rejected calls that run before every case (vlib/faults.py): nothing they leave behind - module state, library options,
# stray files - may make the valid calls of the case violate the statement
from vlib import faults as _faults  # noqa: E402

fault_calls = _faults.for_property(ID)
