"""C12 - Fourier filters are the documented radial low/high/band-pass gains."""
import math

import numpy as np
from hypothesis import strategies as st

from vlib.runner import Outcome, call

ID = "C12"
RULE = (
    "Real maps with independent sizes 8..48 per axis (cubic/non-cubic, odd/even), content = PRNG noise, a unit impulse "
    "(its response is the transfer function) or a pure plane wave cos(2 pi k.x/N + phase) at a drawn integer frequency; "
    "cutoff r in 1..min(N)/2, Gaussian width in {0, 0.5..4}, cutoff given as Fourier pixels or (cubic maps) as "
    "resolution + pixel size. Oracle: integer frequency grid k_i = ((i + N_i//2) mod N_i) - N_i//2; hard edge: "
    "fftn(out) == [|k|^2 <= r^2] * fftn(in) (1e-9 relative to max|F|); soft edge: transfer function real, in [0,1], "
    "1 within r-4s-1, 0 beyond r+4s+1 (1.5e-3 = chi2_3 tail of the per-axis truncated kernel), non-increasing along the "
    "290 primitive lattice rays (components -3..3); metamorphic: linearity, commutation with np.roll, highpass+lowpass == identity, "
    "bandpass == lowpass(lp)-lowpass(hp), plane wave in -> gain(k) * same wave out, resolution route == pixel route "
    "with round(N*px/res), input array unmodified. Non-trivial: non-cubic or odd-sized map with 1 < r < min(N)/2 - 1."
)
ASSUMPTIONS = [
    "resolution route only on cubic maps ('box' is one number there); cases whose N*px/res lies within 1e-6 of a half-integer are filtered (tie of round())",
    "soft-edge band tolerance 1.5e-3: the blur is a separable Gaussian truncated at 4 sigma per axis, mass outside the sphere of radius 4 sigma+1 is bounded by P(chi2_3 > 16) = 1.13e-3",
    "monotonicity is checked along the 290 primitive lattice rays with components in -3..3 from the zero frequency to the box faces (slack 1e-9); the design-phase suspicion of a non-monotone gain next to box faces did not reproduce along any ray (it compared voxels of different directions) and is not a finding",
]
BUDGET = {"quick": {"examples": 2500, "seconds": 75}, "thorough": {"examples": 4000, "seconds": 540}}
EXHAUSTIVE = "every integer frequency vector of an 8x9x10 box as a plane wave through hard-edge lowpass/highpass (720 waves x 2 cutoffs)"

dim = st.one_of(st.integers(8, 48), st.integers(8, 20), st.sampled_from([8, 9, 15, 16, 21, 32]))
sigma_s = st.one_of(st.just(0.0), st.just(0.0), st.sampled_from([0.5, 1.0, 2.0, 3.0, 4.0]), st.floats(0.5, 4.0, allow_nan=False))


@st.composite
def strategy_case(draw):
    cubic = draw(st.integers(0, 3)) == 0
    if cubic:
        n = draw(dim)
        shape = [n, n, n]
    else:
        shape = [draw(dim), draw(dim), draw(dim)]
    while shape[0] * shape[1] * shape[2] > 48 * 48 * 30:
        i = int(np.argmax(shape))
        shape[i] = max(8, shape[i] // 2)
    nmin = min(shape)
    r = draw(st.integers(1, nmin // 2))
    content = draw(st.sampled_from(["noise", "noise", "impulse", "plane"]))
    c = {"shape": shape, "seed": draw(st.integers(0, 2**31 - 1)), "content": content, "r": r, "sigma": draw(sigma_s)}
    if content == "plane":
        c["k"] = [draw(st.integers(-(s // 2), (s - 1) // 2)) for s in shape]
        c["phase"] = draw(st.floats(0, 6.28, allow_nan=False))
    c["shift"] = [draw(st.integers(-s, s)) for s in shape]
    c["ab"] = [draw(st.floats(-3, 3, allow_nan=False)), draw(st.floats(-3, 3, allow_nan=False))]
    c["hp"] = draw(st.integers(0, max(0, r - 1)))
    c["hp_sigma"] = draw(sigma_s)
    if draw(st.booleans()):
        px = draw(st.one_of(st.floats(0.5, 10, allow_nan=False), st.sampled_from([0.5, 0.75, 1.0])))
        # resolutions that map to 1.2 .. min(N)/2 Fourier pixels whichever axis is taken as the box edge
        fp = draw(st.floats(1.2, max(1.3, nmin / 2 - 0.2), allow_nan=False))
        c["res_any"] = {"pixel_size": px, "resolution": shape[0] * px / fp, "resolution_hp": shape[0] * px / max(0.6, fp / draw(st.floats(1.6, 4, allow_nan=False)))}
    if cubic and draw(st.booleans()):
        c["pixel_size"] = draw(st.floats(0.5, 10, allow_nan=False))
        c["res_delta"] = draw(st.floats(-0.49, 0.49, allow_nan=False))
    return c


def strategy(tier):
    return strategy_case()


def corner_cases(tier):
    yield {"shape": [12, 12, 12], "seed": 1, "content": "impulse", "r": 4, "sigma": 0.0, "shift": [1, 2, 3], "ab": [1, -2],
           "hp": 2, "hp_sigma": 0.0, "pixel_size": 2.0, "res_delta": 0.2}
    yield {"shape": [9, 14, 11], "seed": 2, "content": "noise", "r": 3, "sigma": 0.0, "shift": [4, 0, -3], "ab": [0.5, 2], "hp": 1, "hp_sigma": 0.0}
    yield {"shape": [40, 40, 40], "seed": 3, "content": "impulse", "r": 8, "sigma": 2.0, "shift": [0, 0, 0], "ab": [1, 1], "hp": 3, "hp_sigma": 1.0}
    yield {"shape": [16, 16, 16], "seed": 4, "content": "impulse", "r": 8, "sigma": 2.0, "shift": [0, 0, 0], "ab": [1, 1], "hp": 3, "hp_sigma": 1.0}
    if tier == "thorough":
        shape = [8, 9, 10]
        for kx in range(-4, 4):
            for ky in range(-4, 5):
                for kz in range(-5, 5):
                    for r in (2, 4):
                        yield {"shape": shape, "seed": 0, "content": "plane", "k": [kx, ky, kz], "phase": 0.3 + 0.1 * kx, "r": r,
                               "sigma": 0.0, "shift": [0, 0, 0], "ab": [1, 0], "hp": 1, "hp_sigma": 0.0, "light": True}


def kgrid(shape):
    ax = [((np.arange(n) + n // 2) % n) - n // 2 for n in shape]  # integer frequency of FFT index i
    return np.meshgrid(*ax, indexing="ij")


def make(c):
    shape = tuple(c["shape"])
    if c["content"] == "noise":
        return np.random.default_rng(c["seed"]).normal(0, 1, shape)
    if c["content"] == "impulse":
        x = np.zeros(shape)
        rng = np.random.default_rng(c["seed"])
        x[tuple(int(rng.integers(0, n)) for n in shape)] = 1.0
        return x
    idx = np.meshgrid(*[np.arange(n) for n in shape], indexing="ij")
    ph = sum(2 * np.pi * k * i / n for k, i, n in zip(c["k"], idx, shape))
    return np.cos(ph + c["phase"])


import itertools

RAYS = [d for d in itertools.product(range(-3, 4), repeat=3)
        if d != (0, 0, 0) and math.gcd(math.gcd(abs(d[0]), abs(d[1])), abs(d[2])) == 1]  # 290 primitive directions


def run(case):
    from cryocat import cryomap

    out = Outcome()
    shape = tuple(case["shape"])
    r, s = case["r"], float(case["sigma"])
    x = make(case)
    keep = x.copy()
    nmin = min(shape)
    cubic = len(set(shape)) == 1
    odd = any(n % 2 for n in shape)
    out.label(f"content:{case['content']}", "hard" if s == 0 else "soft", "cubic" if cubic else "noncubic", "odd" if odd else "even")
    out.nontrivial = ((not cubic) or odd) and 1 < r < nmin / 2 - 1
    K = kgrid(shape)
    k2 = K[0] ** 2 + K[1] ** 2 + K[2] ** 2
    F = np.fft.fftn(x)
    fmax = np.abs(F).max()

    ok, y = call(out, "lowpass", lambda: cryomap.lowpass(x, fourier_pixels=r, gaussian=s))
    if not ok:
        return out
    out.check(np.array_equal(x, keep), "input_modified", "lowpass")
    if not out.check(y.shape == shape and np.isrealobj(y) and bool(np.all(np.isfinite(y))), "lowpass:shape_or_type", f"{y.shape} {y.dtype}"):
        return out
    Y = np.fft.fftn(y)
    g_hard = (k2 <= r * r).astype(float)
    if s == 0:
        err = np.abs(Y - g_hard * F).max()
        if err > 1e-9 * fmax:
            i = np.unravel_index(np.argmax(np.abs(Y - g_hard * F)), shape)
            kk = [int(K[a][i]) for a in range(3)]
            inside = bool(g_hard[i])
            out.fail("hard:gain_not_radial_step", f"k={kk} |k|^2={int(k2[i])} r={r}: expected gain {int(inside)}, got {Y[i] / F[i] if abs(F[i]) > 1e-12 else Y[i]} (shape {shape})")
    if case["content"] == "plane" and s == 0:
        kk2 = sum(k * k for k in case["k"])
        nyq = any(n % 2 == 0 and k == -(n // 2) for k, n in zip(case["k"], shape))
        g = 1.0 if kk2 <= r * r else 0.0
        out.check(np.abs(y - g * x).max() < 1e-9, "hard:plane_wave_gain", f"k={case['k']} r={r} expected gain {g}")
        if nyq:
            out.label("nyquist_wave")
    if case.get("light"):
        ok, h = call(out, "highpass", lambda: cryomap.highpass(x, fourier_pixels=r, gaussian=s))
        if ok:
            out.check(np.abs(h + y - x).max() < 1e-9, "highpass:not_complement", f"{np.abs(h + y - x).max()}")
        return out

    # transfer function (exact for an impulse; by division elsewhere)
    if s > 0:
        if case["content"] == "impulse":
            G = Y / F
            valid = np.ones(shape, bool)
        else:
            valid = np.abs(F) > 1e-6 * fmax
            G = np.where(valid, Y / np.where(valid, F, 1), 0)
        tol = 1.5e-3
        out.check(np.abs(G.imag[valid]).max() < 1e-9 if valid.any() else True, "soft:gain_not_real", lambda: f"{np.abs(G.imag[valid]).max()}")
        Gr = G.real
        out.check(bool(np.all(Gr[valid] >= -1e-9) and np.all(Gr[valid] <= 1 + 1e-9)), "soft:gain_outside_0_1", lambda: f"{Gr[valid].min()} {Gr[valid].max()}")
        kr = np.sqrt(k2)
        inner = valid & (kr <= r - 4 * s - 1)
        outer = valid & (kr >= r + 4 * s + 1)
        if inner.any():
            out.label("soft:has_inner_band")
            out.check(np.abs(Gr[inner] - 1).max() < tol, "soft:gain_not_1_inside_band", lambda: f"{np.abs(Gr[inner] - 1).max()} r={r} s={s} shape={shape}")
        if outer.any():
            out.label("soft:has_outer_band")
            out.check(np.abs(Gr[outer]).max() < tol, "soft:gain_not_0_outside_band", lambda: f"{np.abs(Gr[outer]).max()} r={r} s={s} shape={shape}")
        if case["content"] == "impulse":
            # monotone along rays from the centre
            face = [n // 2 for n in shape]  # distance (in frequency pixels) from the centre to the lower face (the farther one)
            fits = all(r + 4 * s + 1 <= (n - 1) - n // 2 for n in shape)
            out.label("soft:ball_fits_box" if fits else "soft:ball_cut_by_box")
            Gs = np.fft.fftshift(Gr)  # centre at N//2
            cen = [n // 2 for n in shape]
            worst = None
            for d in RAYS:
                prev = Gs[tuple(cen)]
                t = 1
                while True:
                    p = [cen[a] + t * d[a] for a in range(3)]
                    if any(q < 0 or q >= shape[a] for a, q in enumerate(p)):
                        break
                    cur = Gs[tuple(p)]
                    inc = cur - prev
                    if inc > 1e-9:
                        near_face = any(min(p[a], shape[a] - 1 - p[a]) <= math.ceil(4 * s) + 1 for a in range(3))
                        if worst is None or inc > worst[0]:
                            worst = (inc, d, t, near_face)
                    prev = cur
                    t += 1
            if worst is not None:
                inc, d, t, near_face = worst
                detail = f"gain rises by {inc:.3e} along ray {d} at step {t}; r={r} sigma={s} shape={shape} near_face={near_face} ball_fits={fits}"
                out.fail("soft:gain_increases_with_radius", detail)

    # complement
    ok, h = call(out, "highpass", lambda: cryomap.highpass(x, fourier_pixels=r, gaussian=s))
    if ok:
        e = np.abs(h + y - x).max()
        out.check(e < 1e-9 * max(1.0, np.abs(x).max()), "highpass:not_complement", f"max |hp+lp-x| = {e} (r={r} s={s})")
        if s == 0:
            H = np.fft.fftn(h)
            out.check(np.abs(H - (1 - g_hard) * F).max() <= 1e-9 * fmax, "hard:highpass_gain", "")
    # linearity + roll commutation (noise only; second input derived from the seed)
    if case["content"] == "noise":
        x2 = np.random.default_rng(case["seed"] + 1).normal(0, 1, shape)
        a, b = case["ab"]
        ok, y2 = call(out, "lowpass", lambda: cryomap.lowpass(x2, fourier_pixels=r, gaussian=s))
        ok2, yl = call(out, "lowpass", lambda: cryomap.lowpass(a * x + b * x2, fourier_pixels=r, gaussian=s))
        if ok and ok2:
            out.check(np.abs(yl - (a * y + b * y2)).max() < 1e-9 * (1 + abs(a) + abs(b)) * 10, "lowpass:not_linear", "")
        sh = tuple(case["shift"])
        ok, yr = call(out, "lowpass", lambda: cryomap.lowpass(np.roll(x, sh, axis=(0, 1, 2)), fourier_pixels=r, gaussian=s))
        if ok:
            out.check(np.abs(yr - np.roll(y, sh, axis=(0, 1, 2))).max() < 1e-9, "lowpass:not_shift_invariant", f"shift {sh}")
    # the same two relations for the high-pass and (below) the band-pass
    if case["content"] == "noise" and ok:
        sh = tuple(case["shift"])
        a, b = case["ab"]
        x2 = np.random.default_rng(case["seed"] + 1).normal(0, 1, shape)
        okh2, h2 = call(out, "highpass", lambda: cryomap.highpass(x2, fourier_pixels=r, gaussian=s))
        okhl, hl = call(out, "highpass", lambda: cryomap.highpass(a * x + b * x2, fourier_pixels=r, gaussian=s))
        if okh2 and okhl:
            out.check(np.abs(hl - (a * h + b * h2)).max() < 1e-9 * (1 + abs(a) + abs(b)) * 10, "highpass:not_linear", "")
        okhr, hr = call(out, "highpass", lambda: cryomap.highpass(np.roll(x, sh, axis=(0, 1, 2)), fourier_pixels=r, gaussian=s))
        if okhr:
            out.check(np.abs(hr - np.roll(h, sh, axis=(0, 1, 2))).max() < 1e-9, "highpass:not_shift_invariant", f"shift {sh}")
    # bandpass == lowpass(lp) - lowpass(hp)
    hp, hs = case["hp"], float(case["hp_sigma"])
    if hp >= 1 and r > hp:
        ok, bp = call(out, "bandpass", lambda: cryomap.bandpass(x, lp_fourier_pixels=r, hp_fourier_pixels=hp, lp_gaussian=s, hp_gaussian=hs))
        ok2, yh = call(out, "lowpass", lambda: cryomap.lowpass(x, fourier_pixels=hp, gaussian=hs))
        if ok and ok2:
            out.label("bandpass")
            e = np.abs(bp - (y - yh)).max()
            out.check(e < 1e-9 * max(1.0, np.abs(x).max()), "bandpass:not_difference_of_lowpasses", f"{e} lp={r}/{s} hp={hp}/{hs}")
            if case["content"] == "noise":
                shb = tuple(case["shift"])
                okbr, bpr = call(out, "bandpass", lambda: cryomap.bandpass(np.roll(x, shb, axis=(0, 1, 2)), lp_fourier_pixels=r, hp_fourier_pixels=hp, lp_gaussian=s, hp_gaussian=hs))
                if okbr:
                    out.check(np.abs(bpr - np.roll(bp, shb, axis=(0, 1, 2))).max() < 1e-9, "bandpass:not_shift_invariant", "")
                okb2, bp2 = call(out, "bandpass", lambda: cryomap.bandpass(2.5 * x, lp_fourier_pixels=r, hp_fourier_pixels=hp, lp_gaussian=s, hp_gaussian=hs))
                if okb2:
                    out.check(np.abs(bp2 - 2.5 * bp).max() < 1e-9 * 10, "bandpass:not_linear", "")
            if s == 0 and hs == 0:
                B = np.fft.fftn(bp)
                band = ((k2 <= r * r) & (k2 > hp * hp)).astype(float)
                out.check(np.abs(B - band * F).max() <= 1e-9 * fmax, "hard:bandpass_gain", "")
    # repeatability: the same low-pass again (after the band-pass above may have built masks from the same parameters)
    ok, y_again = call(out, "lowpass", lambda: cryomap.lowpass(x, fourier_pixels=r, gaussian=s))
    if ok:
        out.check(np.array_equal(y_again, y), "lowpass:result_depends_on_earlier_calls", f"max diff {np.abs(y_again - y).max()}")
    # a pixel size given together with Fourier pixels is informational only
    if "res_any" in case:
        px_i = case["res_any"]["pixel_size"]
        ok, y_px = call(out, "lowpass", lambda: cryomap.lowpass(x, fourier_pixels=r, pixel_size=px_i, gaussian=s))
        if ok:
            out.check(np.abs(y_px - y).max() < 1e-9, "lowpass:fourier_pixels_changed_by_pixel_size", f"r={r} N={shape} pixel size {px_i}")
        ok, h_px = call(out, "highpass", lambda: cryomap.highpass(x, fourier_pixels=r, pixel_size=px_i, gaussian=s))
        if ok and 'h' in dir():
            pass
    # resolution route
    if "pixel_size" in case and cubic:
        n = shape[0]
        px = case["pixel_size"]
        target = r + case["res_delta"]
        res = n * px / target
        val = n * px / res
        if abs(val - math.floor(val) - 0.5) < 1e-6:
            out.filtered = "round_tie"
            return out
        out.label("resolution_route")
        ok, yres = call(out, "lowpass", lambda: cryomap.lowpass(x, target_resolution=res, pixel_size=px, gaussian=s))
        if ok:
            out.check(np.abs(yres - y).max() < 1e-9, "resolution:not_round_of_box_px_over_res", f"N={n} px={px} res={res} expected {r} pixels")
        ok, p = call(out, "resolution2pixels", lambda: cryomap.resolution2pixels(res, n, px, print_out=False))
        if ok:
            out.check(p == r, "resolution:resolution2pixels", f"{p} vs {r}")
        ok, rr = call(out, "pixels2resolution", lambda: cryomap.pixels2resolution(r, n, px, print_out=False))
        if ok:
            out.check(abs(rr - n * px / r) <= 1e-12 * rr, "resolution:pixels2resolution", f"{rr}")
    # the storage type of the map is not part of the filter: an integer-typed map (raw tomogram, binarised map) gives what
    # the same numbers stored as floats give
    if case["seed"] % 3 == 0 and not out.violations:
        xi = np.round(x * 50).astype([np.int16, np.int32, np.uint8][case["seed"] % 9 // 3]) if case["seed"] % 9 // 3 < 2 else (x > np.median(x)).astype(np.uint8)
        xf = xi.astype(np.float64)
        out.label(f"integer_typed_map:{xi.dtype}")
        for name_, fn_, kw_ in (("lowpass", cryomap.lowpass, {"fourier_pixels": r, "gaussian": s}), ("highpass", cryomap.highpass, {"fourier_pixels": r, "gaussian": s})):
            ok_i, yi = call(out, name_ + "(integer map)", lambda: fn_(xi.copy(), **kw_))
            ok_f, yf = call(out, name_, lambda: fn_(xf.copy(), **kw_))
            if ok_i and ok_f:
                yi, yf = np.asarray(yi), np.asarray(yf)
                if out.check(yi.shape == yf.shape, f"{name_}:integer_map_result_shape", f"{yi.shape}"):
                    e_ = np.abs(yi.astype(np.float64) - yf).max()
                    out.check(e_ <= 1e-9 * max(1.0, np.abs(yf).max()), f"{name_}:result_depends_on_storage_type_of_the_map", f"{xi.dtype}: max difference {e_}")
    # exact ties of round(box * pixel_size / resolution): with a power-of-two resolution the quotient k + 0.5 is an exact double,
    # so the statement's round() (the language's: ties to the even neighbour) decides them without any tolerance
    n_t, px_t, res_t = [(28, 1.0, 8.0), (20, 1.0, 8.0), (44, 1.0, 8.0), (12, 1.0, 8.0), (36, 1.0, 8.0), (22, 2.0, 8.0), (30, 1.0, 4.0), (10, 2.0, 8.0), (26, 1.0, 4.0), (46, 0.5, 2.0)][case["seed"] % 10]
    ok, p_t = call(out, "resolution2pixels", lambda: cryomap.resolution2pixels(res_t, n_t, px_t, print_out=False))
    if ok:
        out.label("resolution_tie")
        out.check(p_t == round(n_t * px_t / res_t), "resolution:tie_not_rounded_as_round_does", f"box {n_t} pixel size {px_t} resolution {res_t}: {p_t} vs round({n_t * px_t / res_t}) = {round(n_t * px_t / res_t)}")
    # resolution route, any shape: complement and band relations must hold whatever 'box' means for a non-cubic map
    if "res_any" in case:
        px, res = case["res_any"]["pixel_size"], case["res_any"]["resolution"]
        out.label("resolution_route_any_shape")
        ok1, lr = call(out, "lowpass", lambda: cryomap.lowpass(x, target_resolution=res, pixel_size=px, gaussian=s))
        ok2, hr = call(out, "highpass", lambda: cryomap.highpass(x, target_resolution=res, pixel_size=px, gaussian=s))
        if ok1 and ok2:
            e = np.abs(lr + hr - x).max()
            out.check(e < 1e-9 * max(1.0, np.abs(x).max()), "resolution:highpass_not_complement_of_lowpass", f"{e} shape={shape} px={px} res={res}")
        res_hp = case["res_any"]["resolution_hp"]
        if res_hp > res * 1.5:
            okb, br = call(out, "bandpass", lambda: cryomap.bandpass(x, lp_target_resolution=res, hp_target_resolution=res_hp, pixel_size=px, lp_gaussian=s, hp_gaussian=hs))
            okh, lh = call(out, "lowpass", lambda: cryomap.lowpass(x, target_resolution=res_hp, pixel_size=px, gaussian=hs))
            if ok1 and okb and okh:
                e = np.abs(br - (lr - lh)).max()
                out.check(e < 1e-9 * max(1.0, np.abs(x).max()), "resolution:bandpass_not_difference_of_lowpasses", f"{e} shape={shape}")
    # maps given as files and results written to files: same answers as for arrays (every 4th case, cheap boxes only)
    if case["seed"] % 4 == 0 and x.size <= 20000 and not out.violations:
        from vlib import oracle as _o
        ext = ".mrc" if case["seed"] % 8 == 0 else ".em"
        x32 = x.astype(np.float32)
        (_o.mrc_write if ext == ".mrc" else _o.em_write)("map" + ext, x32)
        out.label(f"file_input:{ext}")
        variants = [("lowpass", cryomap.lowpass, {"fourier_pixels": r, "gaussian": s}), ("highpass", cryomap.highpass, {"fourier_pixels": r, "gaussian": s})]
        if r >= 2:
            variants.append(("bandpass", cryomap.bandpass, {"lp_fourier_pixels": r, "hp_fourier_pixels": max(1, r // 2), "lp_gaussian": s, "hp_gaussian": 0}))
        for name, fn, kw_ in variants:
            okf, rf = call(out, name + "(file)", lambda: fn("map" + ext, output_name="res" + ext, **kw_))
            oka, ra = call(out, name + "(array)", lambda: fn(x32.copy(), **kw_))
            if okf and oka:
                if out.check(rf.shape == ra.shape, f"{name}:file_input_result_shape", f"{rf.shape} vs {ra.shape}"):
                    out.check(np.abs(rf - ra).max() <= 1e-6 * max(1.0, np.abs(ra).max()), f"{name}:file_input_result_differs_from_array_input", f"{np.abs(rf - ra).max()}")
                try:
                    fl = (_o.mrc_read if ext == ".mrc" else _o.em_read)("res" + ext)
                    if out.check(tuple(fl["dims"]) == tuple(ra.shape), f"{name}:output_file_dims", f"{fl['dims']} vs {ra.shape}"):
                        out.check(np.abs(fl["data"] - ra).max() <= 1e-5 * max(1.0, np.abs(ra).max()), f"{name}:output_file_does_not_hold_the_result", "")
                except Exception as e:
                    out.fail(f"{name}:output_file_unreadable", repr(e))
    out.check(np.array_equal(x, keep), "input_modified", "after all calls")
    return out


# rejected calls that run before every case (vlib/faults.py): nothing they leave behind - module state, library options,
# stray files - may make the valid calls of the case violate the statement
from vlib import faults as _faults  # noqa: E402

fault_calls = _faults.for_property(ID)
