"""C02 - STAR files: writer/reader round trip and reader vs an independent tokenizer."""
import math
import os
import re

import numpy as np
from hypothesis import strategies as st

from vlib import oracle
from vlib.runner import Outcome, call

ID = "C02"
RULE = (
    "Two generated domains. (A) round trip: 1..4 tables (rows 1..200, an empty table only last; 1..30 columns) of "
    "kind int/float/text/mixed-text, floats with 0..12 decimals and exponents -8..8, text tokens from "
    "printable ASCII without blank and '#' (quotes, commas, brackets included) never numeric-looking per column, block names data_/data_particles/data_optics/"
    "data_stopgap_*, number_columns on/off; oracle: read(write(frames)) equals the generated frames (numeric within "
    "half a unit of the 6th decimal and itself 6-decimal, ints integral, text identical) AND the written text, "
    "tokenized independently, carries exactly those labels (#n numbering iff requested and not stopgap) and tokens. "
    "(B) reader: STAR texts rendered from a grammar (blank/comment lines before blocks, after labels, between "
    "blocks; '#n' label comments; runs of spaces/tabs; trailing whitespace; LF/CRLF; optional final newline); "
    "oracle: Starfile.read == blocks/labels/row tokens of oracle.star_tokenize, numeric columns == float(token) "
    "(1e-15 abs / 1e-13 rel), other columns the token strings. Non-trivial: >= 2 blocks, or a text column, or a blank/comment "
    "line in a permitted place, or CRLF. Distinct = distinct case hash."
)
ASSUMPTIONS = [
    "outside the tokenizer's documented subset and therefore not generated: comments on data rows or after loop_, blank lines inside the rows, quoted strings, multi-token block names, blocks not separated by a blank/comment line, an empty table that is not the last block",
    "text columns contain at least one token no number parser accepts (a letter outside 'aefinptyx'), so numeric-vs-text is unambiguous",
    "integers are limited to |v| < 1e15 (exactly representable in both int64 and float64)",
    "numeric comparison reader-vs-token tolerates max(1e-15 absolute, 1e-13 relative): pandas.to_numeric drops digits beyond the 16th decimal place of positional-notation tokens (e.g. '0.00000000000012345678' -> 1.234e-13); nine orders of magnitude below STAR's 6-decimal precision, exponent-notation tokens are exact",
]
BUDGET = {"quick": {"examples": 1000, "seconds": 70}, "thorough": {"examples": 4000, "seconds": 480}}

# ---------------------------------------------------------------------------------------------
# generators
# ---------------------------------------------------------------------------------------------
TEXT_ALPHA = "abcdefxyzABCXYZ0123456789_./:@$+-" + "\"',;=()[]{}|\\%&*!?<>~^`"  # any printable non-blank character except #
SAFE_LETTERS = "ghjkmqruvwzGHJKMQRUVWZ"  # never part of inf/nan/infinity/true/false/hex/exponent spellings
SPECS = ["data_", "data_particles", "data_optics", "data_stopgap_motivelist", "data_stopgap_wedgelist", "data_general"]


@st.composite
def text_token(draw, force_text=False):
    t = draw(st.text(alphabet=TEXT_ALPHA, min_size=1, max_size=12))
    if force_text:
        t = draw(st.sampled_from(SAFE_LETTERS)) + t
    if t[0] == "_":
        t = "p" + t
    if t == "loop_":
        t = "loopx"
    if draw(st.integers(0, 11)) == 0:  # values that look like keywords of the format but are ordinary values inside a loop
        t = draw(st.sampled_from(["data_", "data_set1.mrc", "data_particles", "loop_x", "data"])) + (t[:3] if draw(st.booleans()) else "")
        if t == "loop_":
            t = "loop_1x"
    return t


label_name = st.tuples(st.sampled_from(["rln", "rln", "rln", "", "wedge", "motl_", "_", "__tag_"]),  # names may themselves begin with underscores (pandas' _merge)
                       st.text(alphabet="ABCDEFabcdefXYZxyz", min_size=1, max_size=10)).map(lambda t: t[0] + t[1])


@st.composite
def float_value(draw):
    k = draw(st.integers(0, 5))
    if k == 0:
        return float(draw(st.integers(-10**6, 10**6)))  # float column holding integral values
    if k == 1:
        d = draw(st.integers(0, 12))
        return round(draw(st.floats(-1e4, 1e4, allow_nan=False)), d)
    if k == 2:
        m = draw(st.floats(1, 10, allow_nan=False, exclude_max=True))
        return draw(st.sampled_from([1, -1])) * m * 10.0 ** draw(st.integers(-8, 8))
    if k == 3:  # ties at the 6th / 7th decimal
        return draw(st.integers(-10**7, 10**7)) / 1e6 + draw(st.sampled_from([5e-7, -5e-7, 4.9e-7, 5.1e-7, 0.0]))
    if k == 4:
        return draw(st.floats(-1e12, 1e12, allow_nan=False, allow_infinity=False))
    return draw(st.floats(-1, 1, allow_nan=False))


@st.composite
def rt_column(draw, nrow, idx):
    kind = draw(st.sampled_from(["int", "float", "float", "text", "mixed"]))
    name = draw(label_name) + str(idx)
    if kind == "int":
        vals = draw(st.lists(st.one_of(st.integers(-1000, 100000), st.integers(-10**15, 10**15)), min_size=nrow, max_size=nrow))
    elif kind == "float":
        vals = draw(st.lists(float_value(), min_size=nrow, max_size=nrow))
    else:
        vals = draw(st.lists(text_token(), min_size=nrow, max_size=nrow))
        if kind == "mixed":
            vals = [str(draw(st.integers(0, 999))) if draw(st.booleans()) else v for v in vals]
        if nrow:
            j = draw(st.integers(0, nrow - 1))
            vals[j] = draw(text_token(force_text=True))
    return {"name": name, "kind": kind, "values": vals}


@st.composite
def rt_case(draw):
    nb = draw(st.integers(1, 4))
    specs = draw(st.permutations(SPECS))[:nb]
    blocks = []
    for b in range(nb):
        last = b == nb - 1
        big = draw(st.integers(0, 9)) == 0
        nrow = draw(st.integers(0 if last else 1, 200 if big else 8))
        ncol = draw(st.integers(1, 30 if draw(st.integers(0, 5)) == 0 else 6))
        cols = [draw(rt_column(nrow, i)) for i in range(ncol)]
        blocks.append({"spec": specs[b], "cols": cols})
    return {"kind": "roundtrip", "blocks": blocks, "number_columns": draw(st.booleans()),
            "pass_specifiers": True}


junk_line = st.sampled_from(["", "  ", "\t", "# a comment here", "\t#x", "#", "   # version 30001", "# data_fake loop_ _rlnX"])
ws = st.sampled_from([" ", "\t", "   ", " \t ", "\t\t", "  "])
trail = st.sampled_from(["", "", " ", "\t", "  \t"])


@st.composite
def num_token(draw, kind):
    if kind == "int":
        v = draw(st.one_of(st.integers(-1000, 100000), st.integers(-10**15, 10**15)))
        return draw(st.sampled_from(["%d", "%d", "%+d", "%04d"])) % v
    k = draw(st.integers(0, 4))
    v = draw(float_value())
    if k == 0:
        return "%.6f" % v
    if k == 1:
        return repr(float(v))
    if k == 2:
        return "%e" % v
    if k == 3:
        return "%.3f" % v
    return "%G" % v


@st.composite
def read_block(draw, spec, last):
    ncol = draw(st.integers(1, 30 if draw(st.integers(0, 6)) == 0 else 6))
    nrow = draw(st.integers(0 if last else 1, 8 if draw(st.integers(0, 9)) else 60))
    numbered = draw(st.sampled_from(["yes", "yes", "no", "mixed", "text", "permuted"]))
    labels, kinds, cols = [], [], []
    for i in range(ncol):
        kind = draw(st.sampled_from(["int", "float", "text", "mixed"]))
        kinds.append(kind)
        if numbered == "yes":
            suf = f" #{i + 1}"
        elif numbered == "permuted":  # the number is a comment: it may be any number (files edited by hand, columns reordered by other tools)
            suf = f" #{ncol - i}" if ncol % 2 else f" #{(i + 1) % ncol + 1}"
        elif numbered == "no":
            suf = draw(trail)
        elif numbered == "mixed":
            suf = draw(st.sampled_from([f" #{i + 1}", "", f"\t#{i + 1} ", f"#{i + 1}"]))
        else:
            suf = draw(st.sampled_from([" # some words here", " #", "   #_notalabel"]))
        labels.append({"name": draw(label_name) + str(i), "suffix": suf})
        if kind in ("int", "float"):
            toks = [draw(num_token(kind)) for _ in range(nrow)]
        else:
            toks = [draw(text_token()) for _ in range(nrow)]
            if kind == "mixed":
                toks = [draw(num_token("int")) if draw(st.booleans()) else t for t in toks]
            if nrow:
                toks[draw(st.integers(0, nrow - 1))] = draw(text_token(force_text=True))
        cols.append(toks)
    rows = []
    for r in range(nrow):
        rows.append({"lead": draw(st.sampled_from(["", "", " ", "\t"])), "tokens": [c[r] for c in cols],
                     "seps": [draw(ws) for _ in range(ncol - 1)], "trail": draw(trail)})
    return {"spec": spec, "pre": draw(st.lists(junk_line, max_size=2)), "spec_trail": draw(trail),
            "post_spec": draw(st.lists(junk_line, max_size=2)), "loop_trail": draw(trail), "labels": labels,
            "kinds": kinds, "post_labels": draw(st.lists(junk_line, max_size=2)), "rows": rows}


@st.composite
def read_case(draw):
    nb = draw(st.integers(1, 4))
    specs = draw(st.permutations(SPECS))[:nb]
    blocks = [draw(read_block(specs[b], b == nb - 1)) for b in range(nb)]
    return {"kind": "read", "blocks": blocks, "tail": draw(st.lists(junk_line, max_size=2)),
            "nl": draw(st.sampled_from(["\n", "\n", "\r\n"])), "final_nl": draw(st.integers(0, 3)) > 0}


def strategy(tier):
    return st.one_of(rt_case(), read_case())


def render(case):
    out = []
    for bi, b in enumerate(case["blocks"]):
        pre = list(b["pre"])
        if bi > 0 and not pre:
            pre = [""]  # at least one blank/comment line separates blocks
        out.extend(pre)
        out.append(b["spec"] + b["spec_trail"])
        out.extend(b["post_spec"])
        out.append("loop_" + b["loop_trail"])
        for l in b["labels"]:
            out.append("_" + l["name"] + l["suffix"])
        out.extend(b["post_labels"])
        for r in b["rows"]:
            s = r["lead"]
            for j, t in enumerate(r["tokens"]):
                s += t
                if j < len(r["seps"]):
                    s += r["seps"][j]
            out.append(s + r["trail"])
    out.extend(case["tail"])
    return case["nl"].join(out) + (case["nl"] if case["final_nl"] else "")


def corner_cases(tier):
    # empty loop as last block at EOF without final newline; single column; CRLF
    b = {"spec": "data_", "pre": [], "spec_trail": "", "post_spec": [""], "loop_trail": "",
         "labels": [{"name": "rlnA", "suffix": " #1"}, {"name": "rlnB", "suffix": " #2"}], "kinds": ["int", "text"],
         "post_labels": [], "rows": []}
    yield {"kind": "read", "blocks": [b], "tail": [], "nl": "\n", "final_nl": False}
    yield {"kind": "read", "blocks": [b], "tail": [], "nl": "\r\n", "final_nl": True}
    b2 = dict(b, rows=[{"lead": "", "tokens": ["1", "g1"], "seps": ["\t"], "trail": ""},
                       {"lead": " ", "tokens": ["2", "7"], "seps": ["  "], "trail": " "}])
    yield {"kind": "read", "blocks": [b2, dict(b, spec="data_optics", pre=["# sep"])], "tail": [], "nl": "\n", "final_nl": False}
    yield {"kind": "roundtrip", "number_columns": True, "pass_specifiers": True, "blocks": [
        {"spec": "data_optics", "cols": [{"name": "rlnA0", "kind": "int", "values": [1, 2]},
                                         {"name": "rlnB1", "kind": "float", "values": [0.1234565, 2.5e-7]},
                                         {"name": "rlnC2", "kind": "text", "values": ["g/x.mrc", "12"]}]},
        {"spec": "data_stopgap_motivelist", "cols": [{"name": "motl_idx0", "kind": "int", "values": []}]}]}


# ---------------------------------------------------------------------------------------------
# oracles
# ---------------------------------------------------------------------------------------------
NUM_RE = re.compile(r"^[+-]?(\d+\.?\d*|\.\d+)([eE][+-]?\d+)?$")


def _ulp(x):
    return math.ulp(abs(x)) if x != 0 else 5e-324


def compare_frame_to_tokens(out, f, labels, rows, prefix):
    """f: DataFrame from the reader; labels/rows: independent tokenizer's view."""
    import pandas as pd

    if not out.check(list(f.columns) == labels, f"{prefix}:labels_differ", f"{list(f.columns)} vs {labels}"):
        return
    if not out.check(len(f) == len(rows), f"{prefix}:row_count", f"{len(f)} vs {len(rows)}"):
        return
    for j, l in enumerate(labels):
        toks = [r[j] for r in rows]
        col = f.iloc[:, j]
        if not toks:
            continue
        numeric = all(NUM_RE.match(t) for t in toks)
        if numeric:
            if not out.check(pd.api.types.is_numeric_dtype(col), f"{prefix}:numeric_column_not_numeric", f"{l}: {col.dtype} {toks[:3]}"):
                return
            got = col.to_numpy(dtype=float)
            exp = np.array([float(t) for t in toks])
            bad = [i for i in range(len(toks)) if abs(got[i] - exp[i]) > max(4 * _ulp(exp[i]), 1e-13 * abs(exp[i]), 1e-15)]
            if not out.check(not bad, f"{prefix}:numeric_value", lambda: f"{l} row {bad[0]}: {got[bad[0]]!r} vs token {toks[bad[0]]}"):
                return
            if all(re.match(r"^[+-]?\d+$", t) for t in toks):
                out.check(pd.api.types.is_integer_dtype(col), f"{prefix}:integer_column_not_integer", f"{l}: {col.dtype}")
        else:
            if not out.check(not pd.api.types.is_numeric_dtype(col), f"{prefix}:text_column_became_numeric", f"{l}: {col.dtype}"):
                return
            got = [str(v) if not isinstance(v, str) else v for v in col.tolist()]
            out.check(col.tolist() == toks, f"{prefix}:text_value", lambda: f"{l}: {col.tolist()[:4]} vs {toks[:4]}")


def run_read(case, out):
    from cryocat import starfileio

    text = render(case)
    ref = oracle.star_tokenize(text)  # ValueError here = generator bug -> harness error
    # self check of generator vs tokenizer
    assert [b["spec"] for b in ref] == [b["spec"] for b in case["blocks"]], "tokenizer/generator disagree on specs"
    for rb, cb in zip(ref, case["blocks"]):
        assert rb["labels"] == [l["name"] for l in cb["labels"]], "tokenizer/generator disagree on labels"
        assert rb["rows"] == [r["tokens"] for r in cb["rows"]], "tokenizer/generator disagree on rows"
    junk = any(b["pre"] or b["post_spec"] or b["post_labels"] for b in case["blocks"]) or bool(case["tail"])
    has_text = any(k in ("text", "mixed") for b in case["blocks"] for k in b["kinds"])
    out.label("read", f"blocks:{len(case['blocks'])}", "crlf" if case["nl"] == "\r\n" else "lf",
              "final_nl" if case["final_nl"] else "no_final_nl")
    if junk:
        out.label("junk_lines")
    if not case["blocks"][-1]["rows"]:
        out.label("empty_last_block")
    out.nontrivial = len(case["blocks"]) >= 2 or has_text or junk or case["nl"] == "\r\n"
    with open("t.star", "w", newline="") as f:
        f.write(text)
    ok, res = call(out, "Starfile.read", lambda: starfileio.Starfile.read("t.star"))
    if not ok:
        # narrow the signature for the one class known from reconnaissance
        if not case["blocks"][-1]["rows"] and not case["final_nl"] and not case["tail"] and not case["blocks"][-1]["post_labels"]:
            sig, detail = out.violations[-1]
            out.violations[-1] = (sig + ":empty_loop_at_eof_without_newline", detail)
        return
    frames, specs, _ = res
    if not out.check(list(specs) == [b["spec"] for b in ref], "read:specifiers_differ", f"{specs}"):
        return
    for f, b in zip(frames, ref):
        compare_frame_to_tokens(out, f, b["labels"], b["rows"], "read")
    # two live results: the unchanged file is read a second time, the tables of the first result are then edited in place;
    # the second result still has to be the file's content
    ok, res2 = call(out, "Starfile.read", lambda: starfileio.Starfile.read("t.star"))
    if ok:
        for f in frames:
            _faults.scribble(f)
        if out.check(list(res2[1]) == [b["spec"] for b in ref] and len(res2[0]) == len(ref), "read:second_read_specifiers_differ", f"{res2[1]}"):
            for f, b in zip(res2[0], ref):
                compare_frame_to_tokens(out, f, b["labels"], b["rows"], "read:second_result_after_editing_the_first")
        ok, res = call(out, "Starfile.read", lambda: starfileio.Starfile.read("t.star"))
        if not ok:
            return
        frames, specs, _ = res
    # Starfile(path) object and data_id access agree with read()
    if len(ref) >= 2:
        ok, r1 = call(out, "Starfile.read(data_id)", lambda: starfileio.Starfile.read("t.star", data_id=len(ref) - 1))
        if ok:
            out.check(r1[1] == ref[-1]["spec"] and list(r1[0].columns) == ref[-1]["labels"], "read:data_id_wrong_block", r1[1])
        ok, r2 = call(out, "Starfile.read(data_id=-1)", lambda: starfileio.Starfile.read("t.star", data_id=-1))
        if ok:
            out.check(r2[1] == ref[-1]["spec"] and list(r2[0].columns) == ref[-1]["labels"], "read:negative_data_id_not_counted_from_the_end", r2[1])
        ok, r3 = call(out, "Starfile.read(data_id=0)", lambda: starfileio.Starfile.read("t.star", data_id=0))
        if ok:
            out.check(r3[1] == ref[0]["spec"] and list(r3[0].columns) == ref[0]["labels"] and len(r3[0]) == len(ref[0]["rows"]), "read:data_id_wrong_block", r3[1])


def run_roundtrip(case, out):
    import pandas as pd
    from cryocat import starfileio

    frames = []
    for b in case["blocks"]:
        d = {}
        for c in b["cols"]:
            if c["kind"] == "int":
                d[c["name"]] = pd.Series(c["values"], dtype="int64")
            elif c["kind"] == "float":
                d[c["name"]] = pd.Series(c["values"], dtype="float64")
            else:
                d[c["name"]] = pd.Series(c["values"], dtype=object)
        fr_ = pd.DataFrame(d, columns=[c["name"] for c in b["cols"]])
        # row labels carry no meaning for the file: rows are written in their order in the table
        kind_ = (len(fr_) + len(fr_.columns) + len(frames)) % 4
        n_ = len(fr_)
        if kind_ == 1:
            fr_.index = list(range(n_ - 1, -1, -1))
        elif kind_ == 2 and n_:
            fr_.index = [(i + 1) % n_ for i in range(n_)]
        elif kind_ == 3:
            k_ = (n_ + 1) // 2
            fr_.index = list(range(k_)) + list(range(n_ - k_))  # repeated labels, as after pd.concat
        frames.append(fr_)
    specs = [b["spec"] for b in case["blocks"]]
    has_text = any(c["kind"] in ("text", "mixed") for b in case["blocks"] for c in b["cols"])
    out.label("roundtrip", f"blocks:{len(specs)}", "numbered" if case["number_columns"] else "unnumbered")
    if any("stopgap" in s for s in specs):
        out.label("stopgap_block")
    if max(len(f) for f in frames) > 50:
        out.label("rows>50")
    out.nontrivial = len(specs) >= 2 or has_text
    kw_c = {}
    if (len(specs) + len(frames[0]) + len(frames[0].columns)) % 3 == 0:
        # comment lines handed to the writer go in front of their block and change nothing else
        pool = [["version 30001"], ["written by the harness", "data_fake loop_ _rlnX #1"], None, ["a  b\tc # d"]]
        kw_c = {"comments": [pool[(i + len(frames[0])) % 4] for i in range(len(specs))]}
        out.label("writer_comments")
    if len(frames) % 2 == 0 or len(frames[0].columns) % 2 == 0:
        # fault path: a write to the same path that is rejected after its first block (no specifier for the second) comes
        # first; the valid write that follows must produce exactly its own blocks
        out.label("rejected_write_to_the_same_path_first")
        try:
            starfileio.Starfile.write([frames[0].copy(), frames[0].copy()], "w.star", specifiers=[specs[0], None])
        except Exception:
            pass
    ok, _ = call(out, "Starfile.write", lambda: starfileio.Starfile.write(
        [f.copy() for f in frames], "w.star", specifiers=list(specs), number_columns=case["number_columns"], **kw_c))
    if not ok:
        return
    text = open("w.star", newline="").read()
    # (1) the written text, independently tokenized
    try:
        ref = oracle.star_tokenize(text)
    except ValueError as e:
        out.fail("write:text_outside_star_subset", str(e))
        return
    if not out.check([b["spec"] for b in ref] == specs, "write:specifiers_differ", [b["spec"] for b in ref]):
        return
    for rb, cb in zip(ref, case["blocks"]):
        names = [c["name"] for c in cb["cols"]]
        if not out.check(rb["labels"] == names, "write:labels_differ", f"{rb['labels']} vs {names}"):
            return
        want_numbers = case["number_columns"] and "stopgap" not in cb["spec"]
        if want_numbers:
            out.check(rb["label_comments"] == [str(i + 1) for i in range(len(names))], "write:label_numbering",
                      f"{rb['label_comments']}")
        else:
            out.check(all(c is None for c in rb["label_comments"]), "write:unexpected_label_numbering", f"{rb['label_comments']}")
        nrow = len(cb["cols"][0]["values"])
        if not out.check(len(rb["rows"]) == nrow, "write:row_count", f"{len(rb['rows'])} vs {nrow}"):
            return
        for j, c in enumerate(cb["cols"]):
            toks = [r[j] for r in rb["rows"]]
            _cmp_values(out, c, toks, None, "write")
    # (2) read back
    ok, res = call(out, "Starfile.read", lambda: starfileio.Starfile.read("w.star"))
    if not ok:
        return
    f2, s2, _ = res
    if not out.check(list(s2) == specs, "roundtrip:specifiers_differ", s2):
        return
    # reads must not depend on what was read before: a file with the same labels but the opposite kind of content
    # (text where this one has numbers and vice versa) is read in between, then the first file again
    with open("other.star", "w") as fo:
        for cb in case["blocks"]:
            fo.write(f"\n{cb['spec']}\n\nloop_\n" + "".join(f"_{c['name']} #{i + 1}\n" for i, c in enumerate(cb["cols"])))
            fo.write(" ".join(("gq%d" % i if c["kind"] in ("int", "float") else str(i + 1)) for i, c in enumerate(cb["cols"])) + "\n\n")
    ok, _ = call(out, "Starfile.read", lambda: starfileio.Starfile.read("other.star"))
    if ok:
        ok, again = call(out, "Starfile.read", lambda: starfileio.Starfile.read("w.star"))
        if ok:
            same = list(again[1]) == list(s2) and all(a_.equals(b_) and list(a_.dtypes) == list(b_.dtypes) for a_, b_ in zip(again[0], f2))
            out.check(same, "read:result_depends_on_previously_read_file", "second read of the same file differs after another file with the same labels was read")
    for f, cb in zip(f2, case["blocks"]):
        names = [c["name"] for c in cb["cols"]]
        if not out.check(list(f.columns) == names, "roundtrip:labels_differ", f"{list(f.columns)}"):
            return
        nrow = len(cb["cols"][0]["values"])
        if not out.check(len(f) == nrow, "roundtrip:row_count", f"{len(f)} vs {nrow}"):
            return
        for j, c in enumerate(cb["cols"]):
            _cmp_values(out, c, None, f.iloc[:, j], "roundtrip")


def _cmp_values(out, c, toks, col, prefix):
    import pandas as pd

    vals = c["values"]
    if not vals:
        return
    if c["kind"] in ("int", "float"):
        if toks is not None:
            if not out.check(all(NUM_RE.match(t) for t in toks), f"{prefix}:numeric_token_malformed", toks[:3]):
                return
            got = [float(t) for t in toks]
        else:
            if not out.check(pd.api.types.is_numeric_dtype(col), f"{prefix}:numeric_column_not_numeric", f"{c['name']} {col.dtype}"):
                return
            got = col.to_numpy(dtype=float).tolist()
            if c["kind"] == "int":
                out.check(pd.api.types.is_integer_dtype(col), f"{prefix}:integer_column_not_integer", f"{c['name']} {col.dtype}")
        for i, (g, v) in enumerate(zip(got, vals)):
            v = float(v)
            tol = 0.5e-6 * (1 + 1e-6) + 4 * _ulp(v)
            if abs(g - v) > tol:
                out.fail(f"{prefix}:numeric_value_beyond_6_decimals", f"{c['name']} row {i}: {g!r} vs {v!r}")
                return
            if abs(g) < 1e8:  # 6-decimal grid is resolvable in double precision here
                s = g * 1e6
                if abs(s - round(s)) > 1e-3 + 8 * _ulp(s):
                    out.fail(f"{prefix}:numeric_value_not_rounded_to_6", f"{c['name']} row {i}: {g!r} from {v!r}")
                    return
            if c["kind"] == "int" and g != v:
                out.fail(f"{prefix}:integer_value", f"{c['name']} row {i}: {g!r} vs {v!r}")
                return
    else:
        got = toks if toks is not None else col.tolist()
        if col is not None and not out.check(not pd.api.types.is_numeric_dtype(col), f"{prefix}:text_column_became_numeric", c["name"]):
            return
        out.check(list(got) == list(vals), f"{prefix}:text_value", lambda: f"{c['name']}: {list(got)[:4]} vs {vals[:4]}")


NUMERICISH = set("0123456789+-.eEinfINFatyNAn_xX")


def run_rawtext(case, out):
    """Raw STAR text (fuzzer): the oracle applies only if the independent tokenizer accepts the text. Returns False if outside the subset."""
    from cryocat import starfileio

    text = case["text"]
    if not text.isascii() or any(ord(ch) < 32 and ch not in "\t\n\r" for ch in text) or "\r" in text.replace("\r\n", ""):
        return False
    try:
        ref = oracle.star_tokenize(text)
    except ValueError:
        return False
    if not ref or any(not b["labels"] for b in ref) or any(not b["rows"] for b in ref[:-1]):
        return False
    if len({b["spec"] for b in ref}) != len(ref) or any(not b["spec"].startswith("data_") for b in ref):
        return False
    if any(t.startswith("_") or t == "loop_" for b in ref for r in b["rows"] for t in r):
        return False
    if any(l == "" for b in ref for l in b["labels"]):
        return False
    with open("raw.star", "w", newline="") as f:
        f.write(text)
    out.nontrivial = len(ref) >= 2
    ok, res = call(out, "Starfile.read", lambda: starfileio.Starfile.read("raw.star"))
    if not ok:
        return True
    frames, specs, _ = res
    if not out.check(list(specs) == [b["spec"] for b in ref], "raw:specifiers_differ", f"{specs}"):
        return True
    for f_, b in zip(frames, ref):
        # columns whose tokens are not plainly numeric but could be read as numbers by some parser are not value-compared
        amb = [j for j in range(len(b["labels"])) if b["rows"] and not all(NUM_RE.match(r[j]) for r in b["rows"]) and any(set(r[j]) <= NUMERICISH for r in b["rows"])]
        if amb or len(set(b["labels"])) != len(b["labels"]):
            out.check(list(f_.columns) == b["labels"] and len(f_) == len(b["rows"]), "raw:labels_or_row_count", f"{list(f_.columns)}")
        else:
            compare_frame_to_tokens(out, f_, b["labels"], b["rows"], "raw")
    return True


def run(case):
    out = Outcome()
    if case["kind"] == "read":
        run_read(case, out)
    elif case["kind"] == "rawtext":
        run_rawtext(case, out)
    else:
        run_roundtrip(case, out)
    return out


def extra_campaign(tier, seed, stats, known_open):
    """Coverage-guided atheris campaign on the reader (structured + raw text); results merged into the run's statistics."""
    import glob

    from vlib import env, fuzzrun

    # seed corpus: the repository's small STAR files as raw-mode inputs (text + mode byte 0), plus libFuzzer's empty-corpus behaviour
    seeds = []
    for f in sorted(glob.glob(os.path.join(env.repo_path(), "tests", "test_data", "**", "*.star"), recursive=True)):
        if os.path.getsize(f) < 3000:
            seeds.append(open(f, "rb").read().replace(b"\r", b"") + b"\x00")  # FuzzedDataProvider takes integers from the end: last byte = mode
    return fuzzrun.campaign("c02_star_fuzz.py", "atheris/libFuzzer on cryocat.starfileio (structured + raw text)", seeds, stats, known_open,
                            runs=4000 if tier == "quick" else 150000, seconds=25 if tier == "quick" else 300, seed=seed, max_len=2600)


# rejected calls that run before every case (vlib/faults.py): nothing they leave behind - module state, library options,
# stray files - may make the valid calls of the case violate the statement
from vlib import faults as _faults  # noqa: E402

fault_calls = _faults.for_property(ID)
