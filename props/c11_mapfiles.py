"""C11 - map files round-trip voxels and axis order across MRC, REC and EM."""
import os

import numpy as np
from hypothesis import strategies as st

from vlib import oracle
from vlib.runner import Outcome, call

ID = "C11"
RULE = (
    "Arrays with three independent sizes 1..48 (size-1 axes included), dtype float32/float64/int16/int8 with PRNG "
    "content over the full range of the type (seed drawn by Hypothesis), extension .mrc/.rec/.em, write options "
    "transpose on/off and data_type None/lossless target, then either read back, or converted em->mrc / mrc->em with "
    "invert on/off, default/explicit output name (input stems ending in m/r/c/. or containing dots included) and overwrite on/off against a pre-existing target. Oracle: own "
    "byte-level MRC2014 / EM parsers: header nx,ny,nz == array (x,y,z) shape, mode/type code == dtype (float64 "
    "narrowed to float32), voxel (i,j,k) at linear offset i + nx*(j + ny*k); read() returns the input shape and values; "
    "conversions preserve (negate) every voxel; overwrite=False raises and leaves the target's bytes unchanged. "
    "Non-trivial: three pairwise different sizes. Distinct = distinct case hash."
)
ASSUMPTIONS = [
    "for integer inversion the most negative value of the type is excluded (not negatable within the type)",
    "data_type casts are restricted to value-preserving ones (int8->int16/float32, int16->float32, float64->float32, integral float32->int16)",
    "with transpose=False the array is taken as (z,y,x), as documented by the function (axis 0 slowest on disk)",
]
BUDGET = {"quick": {"examples": 6000, "seconds": 60}, "thorough": {"examples": 15000, "seconds": 420}}

DT = {"float32": np.float32, "float64": np.float64, "int16": np.int16, "int8": np.int8}
size = st.one_of(st.integers(1, 48), st.integers(1, 9), st.sampled_from([1, 2, 3]))


@st.composite
def strategy_case(draw):
    shape = [draw(size), draw(size), draw(size)]
    if shape[0] * shape[1] * shape[2] > 30000:
        shape[draw(st.integers(0, 2))] = draw(st.integers(1, 6))
    dtype = draw(st.sampled_from(list(DT)))
    op = draw(st.sampled_from(["write_read", "write_read", "em2mrc", "mrc2em", "invert_contrast"]))
    c = {"shape": shape, "dtype": dtype, "seed": draw(st.integers(0, 2**31 - 1)), "op": op,
         "stem": draw(st.sampled_from(["in", "tomogram", "norm", "run1.c", "vol_7", "a.b", "mrc", "em", "x.mrc", "stack.em", "r", "data.rec"])),
         "content": draw(st.sampled_from(["full", "full", "small", "ramp"]))}
    if op == "write_read":
        c["ext"] = draw(st.sampled_from([".mrc", ".rec", ".em"]))
        c["transpose"] = draw(st.sampled_from([True, True, False]))
        cast = {"float32": [None, None, "int16i", "float64"], "float64": [None, "float32", "float64"], "int16": [None, "float32"],
                "int8": [None, "int16", "float32"]}[dtype]
        c["data_type"] = draw(st.sampled_from(cast))
        c["read_transpose"] = c["transpose"]
        c["read_dtype"] = draw(st.sampled_from([None, "float32", "float64", "int32"]))
        c["layout"] = draw(st.sampled_from(["c", "c", "fortran", "crop", "strided", "flipped", "axes"]))
        c["preexisting"] = draw(st.sampled_from([None, None, "overwrite", "no_overwrite"]))
    elif op in ("em2mrc", "mrc2em"):
        c["invert"] = draw(st.booleans())
        c["explicit_name"] = draw(st.booleans())
        c["preexisting"] = draw(st.sampled_from([None, None, "overwrite", "no_overwrite"]))
    else:
        c["ext"] = draw(st.sampled_from([".mrc", ".rec", ".em"]))
        c["from_file"] = draw(st.booleans())
        c["write_out"] = draw(st.booleans())
    return c


def strategy(tier):
    return strategy_case()


def corner_cases(tier):
    for ext in (".mrc", ".rec", ".em"):
        for dt in DT:
            yield {"shape": [3, 4, 5], "dtype": dt, "seed": 1, "op": "write_read", "content": "ramp", "ext": ext,
                   "transpose": True, "data_type": None, "read_transpose": True, "preexisting": None}
    yield {"shape": [1, 7, 2], "dtype": "float32", "seed": 2, "op": "em2mrc", "content": "full", "invert": True,
           "explicit_name": False, "preexisting": "no_overwrite"}
    yield {"shape": [5, 1, 3], "dtype": "int16", "seed": 2, "op": "mrc2em", "content": "full", "invert": True,
           "explicit_name": True, "preexisting": "overwrite"}


def make_array(c):
    rng = np.random.default_rng(c["seed"])
    shape = tuple(c["shape"])
    dt = DT[c["dtype"]]
    n = int(np.prod(shape))
    if c["content"] == "ramp":
        a = np.arange(n).reshape(shape[::-1]).transpose(2, 1, 0) % 120  # value encodes the x-fastest linear index
        return a.astype(dt)
    if np.issubdtype(dt, np.integer):
        info = np.iinfo(dt)
        lo, hi = (info.min + 1, info.max) if c["content"] == "full" else (-5, 5)
        return rng.integers(lo, hi + 1, size=shape).astype(dt)
    if c["content"] == "small":
        return np.round(rng.normal(0, 3, shape)).astype(dt)
    a = rng.normal(0, 1, shape) * 10.0 ** rng.integers(-6, 7, shape)
    if dt is np.float64 and c["seed"] % 4 == 0:
        # double-precision values beyond the single-precision range: narrowing them is IEEE's (+-inf), like any other cast
        flat = a.reshape(-1)
        for k_, v_ in zip(rng.integers(0, n, 4), (3.5e38, -1e39, 5e200, -3.4028235e38)):
            flat[int(k_)] = v_
    return a.astype(dt)


def relayout(a, kind):
    """the same values in another memory layout (what callers hand over after cropping, binning, flipping, reordering axes)"""
    if kind == "fortran":
        return np.asfortranarray(a)
    if kind == "crop":
        big = np.zeros(tuple(s_ + 3 for s_ in a.shape), dtype=a.dtype)
        big[1:-2, 2:-1, 1:-2] = a
        return big[1:-2, 2:-1, 1:-2]
    if kind == "strided":
        big = np.zeros(tuple(2 * s_ for s_ in a.shape), dtype=a.dtype)
        big[::2, ::2, ::2] = a
        return big[::2, ::2, ::2]
    if kind == "flipped":
        return np.ascontiguousarray(a[:, ::-1, :])[:, ::-1, :]
    if kind == "axes":
        return np.ascontiguousarray(a.transpose(1, 0, 2)).transpose(1, 0, 2)
    return a


def parse(path):
    return oracle.em_read(path) if path.endswith(".em") else oracle.mrc_read(path)


def stored_dtype(dt):
    return np.dtype(np.float32) if np.dtype(dt) == np.float64 else np.dtype(dt)


def check_file(out, path, expect_xyz, prefix):
    """File bytes (independent parser) hold expect_xyz[x,y,z] with x fastest."""
    try:
        f = parse(path)
    except Exception as e:
        out.fail(f"{prefix}:file_not_parseable", repr(e))
        return False
    ok = out.check(tuple(f["dims"]) == tuple(expect_xyz.shape), f"{prefix}:header_dims", f"{f['dims']} vs {expect_xyz.shape}")
    ok &= out.check(f["dtype"] == expect_xyz.dtype, f"{prefix}:stored_type", f"{f['dtype']} vs {expect_xyz.dtype}")
    if ok:
        same = np.array_equal(f["data"], expect_xyz)
        if not same:
            neg = np.array_equal(f["data"], -expect_xyz)
            perm = sorted(f["data"].ravel().tolist()) == sorted(expect_xyz.ravel().tolist())
            out.fail(f"{prefix}:voxels_" + ("negated" if neg else "permuted" if perm else "changed"),
                     f"first diff at {np.argwhere(f['data'] != expect_xyz)[0].tolist()}")
            ok = False
    return ok


def run(case):
    from cryocat import cryomap

    out = Outcome()
    a = make_array(case)
    s = case["shape"]
    out.label(f"op:{case['op']}", f"dtype:{case['dtype']}")
    if 1 in s:
        out.label("size1_axis")
    out.nontrivial = len(set(s)) == 3
    op = case["op"]

    if op == "write_read":
        ext = case["ext"]
        out.label(f"ext:{ext}", "transpose" if case["transpose"] else "no_transpose")
        path = "vol" + ext
        dtarg = {None: None, "float32": np.float32, "int16": np.int16, "int16i": np.int16, "float64": np.float64}[case["data_type"]]
        src = a
        if case["data_type"] == "int16i":
            src = np.clip(np.round(a), -30000, 30000).astype(np.float32)
        src = relayout(src, case.get("layout", "c"))
        out.label(f"layout:{case.get('layout', 'c')}")
        pre = None
        if case["preexisting"]:
            oracle.mrc_write(path, np.zeros((2, 2, 2), np.float32)) if ext != ".em" else oracle.em_write(path, np.zeros((2, 2, 2), np.float32))
            pre = open(path, "rb").read()
        overwrite = case["preexisting"] != "no_overwrite"
        keep = src.copy()
        kwargs = {"transpose": case["transpose"], "overwrite": overwrite}
        if dtarg is not None:
            # every spelling numpy accepts for the type: the scalar type, a dtype object, its name
            spell = case["seed"] % 3
            kwargs["data_type"] = [dtarg, np.dtype(dtarg), np.dtype(dtarg).name][spell]
            if dtarg is np.float64 and spell == 1:
                kwargs["data_type"] = float  # the builtin is the most common way to ask for double precision
            out.label(f"data_type_spelling:{['type', 'dtype', 'name'][spell]}")
        if case["preexisting"] == "no_overwrite":
            try:
                cryomap.write(src, path, **kwargs)
                out.fail("write:overwrote_despite_overwrite_false", f"{ext}")
            except Exception:
                if out.check(os.path.isfile(path), "write:target_deleted_despite_overwrite_false", ext):
                    out.check(open(path, "rb").read() == pre, "write:target_modified_despite_overwrite_false", ext)
            if case["seed"] % 2 or out.violations or not os.path.isfile(path):
                return out
            # fault path: the refusal above is followed by the user removing the target; the same request, to the now free
            # path, is an ordinary write and has to produce the file
            out.label("write:refused_then_target_removed_then_written")
            os.unlink(path)
        ok, _ = call(out, "cryomap.write", lambda: cryomap.write(src, path, **kwargs))
        if not ok:
            return out
        out.check(np.array_equal(src, keep), "write:input_array_modified", "")
        logical = src.astype(dtarg) if dtarg is not None else src
        logical = logical.astype(stored_dtype(logical.dtype))
        expect_xyz = logical if case["transpose"] else logical.transpose(2, 1, 0)
        check_file(out, path, np.ascontiguousarray(expect_xyz), "write")
        ok, b = call(out, "cryomap.read", lambda: cryomap.read(path, transpose=case["read_transpose"]))
        if ok:
            if out.check(tuple(b.shape) == tuple(logical.shape), "read:shape", f"{b.shape} vs {logical.shape}"):
                out.check(np.array_equal(b, logical), "read:values", lambda: f"first diff {np.argwhere(b != logical)[0].tolist()}")
                out.check(b.dtype == logical.dtype, "read:dtype", f"{b.dtype} vs {logical.dtype}")
        # the data_type option of read(): the same voxels in the requested type (the harness only asks for value-preserving
        # casts: every stored type widens losslessly to float64; int32 only when the stored values are integral)
        rdt = case.get("read_dtype")
        if ok and rdt is not None and (rdt != "int32" or logical.dtype.kind in "iu") and (rdt != "float32" or logical.dtype.itemsize <= 4 and logical.dtype != np.int32):
            out.label(f"read_as:{rdt}")
            okd, bd = call(out, "cryomap.read(data_type)", lambda: cryomap.read(path, transpose=case["read_transpose"], data_type=np.dtype(rdt).type))
            if okd:
                out.check(bd.dtype == np.dtype(rdt), "read:data_type_not_applied", f"{bd.dtype} vs {rdt}")
                out.check(tuple(bd.shape) == tuple(logical.shape) and np.array_equal(bd.astype(np.float64), logical.astype(np.float64)), "read:values_with_data_type", "")
            # an array instead of a path: the same values, as a copy the caller may change
            oka, ba = call(out, "cryomap.read(array)", lambda: cryomap.read(logical, data_type=np.dtype(rdt).type))
            if oka:
                out.check(ba.dtype == np.dtype(rdt) and np.array_equal(ba.astype(np.float64), logical.astype(np.float64)), "read:array_input_values", f"{ba.dtype}")
        # what read() returns belongs to the caller: changing it in place must not change what the next read of the file returns
        if ok and case["read_transpose"] and isinstance(b, np.ndarray) and b.size:
            try:
                b += 1
            except Exception:
                pass
            ok3, b3 = call(out, "cryomap.read(again)", lambda: cryomap.read(path))
            if ok3:
                out.check(tuple(b3.shape) == tuple(logical.shape) and np.array_equal(b3, logical), "read:second_read_reflects_changes_made_to_first_result", "")
        # reading a file written by an independent writer
        if case["dtype"] != "float64":
            p2 = "ind" + ext
            (oracle.em_write if ext == ".em" else oracle.mrc_write)(p2, a)
            ok, b2 = call(out, "cryomap.read", lambda: cryomap.read(p2))
            if ok:
                out.check(tuple(b2.shape) == tuple(a.shape) and np.array_equal(b2, a), "read:independent_file_differs", f"{b2.shape}")
        return out

    if op in ("em2mrc", "mrc2em"):
        src_ext, dst_ext = (".em", ".mrc") if op == "em2mrc" else (".mrc", ".em")
        stored = a.astype(stored_dtype(a.dtype))
        stem = case.get("stem", "in")
        src = stem + src_ext
        (oracle.em_write if src_ext == ".em" else oracle.mrc_write)(src, stored)
        dst = "out_named" + dst_ext if case["explicit_name"] else stem + dst_ext
        pre = None
        if case["preexisting"]:
            (oracle.em_write if dst_ext == ".em" else oracle.mrc_write)(dst, np.ones((2, 3, 2), np.float32))
            pre = open(dst, "rb").read()
        overwrite = case["preexisting"] != "no_overwrite"
        fn = cryomap.em2mrc if op == "em2mrc" else cryomap.mrc2em
        kw = {"invert": case["invert"], "overwrite": overwrite}
        if overwrite and case["seed"] % 2:
            del kw["overwrite"]  # "refuses when told not to": nothing told = an existing target is replaced
            out.label("overwrite_left_at_its_default")
        if case["explicit_name"]:
            kw["output_name"] = dst
        out.label("invert" if case["invert"] else "no_invert", f"pre:{case['preexisting']}")
        if case["preexisting"] == "no_overwrite":
            try:
                fn(src, **kw)
                out.fail("convert:overwrote_despite_overwrite_false", op)
            except Exception:
                if out.check(os.path.isfile(dst), "convert:target_deleted_despite_overwrite_false", op):
                    out.check(open(dst, "rb").read() == pre, "convert:target_modified_despite_overwrite_false", op)
            return out
        src_bytes = open(src, "rb").read()
        sibling = None
        if case["explicit_name"] and not case["preexisting"] and case["seed"] % 2 == 0:
            # the default-named sibling of the source exists (left by an earlier conversion); the requested, different
            # target does not: nothing is in the way, not even with overwrite=False, and the sibling is none of this call's business
            sibling = stem + dst_ext
            (oracle.em_write if dst_ext == ".em" else oracle.mrc_write)(sibling, np.ones((2, 2, 3), np.float32))
            sib_bytes = open(sibling, "rb").read()
            kw["overwrite"] = False
            out.label("free_target_next_to_default_named_sibling")
        ok, _ = call(out, op, lambda: fn(src, **kw))
        if not ok:
            return out
        if sibling is not None:
            out.check(os.path.isfile(sibling) and open(sibling, "rb").read() == sib_bytes, "convert:unrelated_sibling_file_touched", sibling)
        if not out.check(os.path.isfile(dst), "convert:output_missing", dst):
            return out
        out.check(open(src, "rb").read() == src_bytes, "convert:input_file_modified", "")
        expect = -stored if case["invert"] else stored
        check_file(out, dst, expect, "convert")
        return out

    # invert_contrast
    ext = case["ext"]
    stored = a.astype(stored_dtype(a.dtype))
    if case["from_file"]:
        p = "inv_in" + ext
        (oracle.em_write if ext == ".em" else oracle.mrc_write)(p, stored)
        inp, base = p, stored
    else:
        inp, base = a.copy(), a
    outname = ("inv_out" + ext) if case["write_out"] else None
    out.label("from_file" if case["from_file"] else "from_array")
    ok, r = call(out, "invert_contrast", lambda: cryomap.invert_contrast(inp, output_name=outname))
    if ok:
        out.check(tuple(r.shape) == tuple(base.shape) and np.array_equal(r, -base), "invert:values", f"{r.shape}")
        if not case["from_file"]:
            out.check(np.array_equal(inp, a), "invert:input_array_modified", "")
        if outname:
            check_file(out, outname, (-base).astype(stored_dtype(base.dtype)), "invert_file")
    return out


# rejected calls that run before every case (vlib/faults.py): nothing they leave behind - module state, library options,
# stray files - may make the valid calls of the case violate the statement
from vlib import faults as _faults  # noqa: E402

fault_calls = _faults.for_property(ID)
