"""C08 - particle-list set algebra and identifier discipline under histories of operations."""
import math

import numpy as np
from hypothesis import strategies as st

from vlib import gen, oracle
from vlib.runner import Outcome, call

ID = "C08"
RULE = (
    "A pool of 1..3 particle tables (0..12 rows element-wise, optional PRNG bulk up to 200; repeated tomo/object/class "
    "values, NaN holes in free fields, unsorted and partly duplicated subtomogram numbers incl. large adjacent ones (250000+k) and nearly equal float field values, column permutation, "
    "non-default row labels) and a history of 1..10 operations drawn from subset / remove / split / intersection / "
    "drop_duplicates / merge_and_renumber / merge_and_drop_duplicates / renumber_particles / "
    "renumber_objects_sequentially, each with state-dependent arguments (k-th distinct value of a field, list j of the "
    "pool). Every operation is applied to the real Motl objects and to a pure-Python row-list model (rows are dicts "
    "carrying a hidden unique tag); after every step the produced list must have exactly the 20 columns and equal the "
    "model row by row in all 20 fields (NaN == 0); where the statement leaves a choice (which of several equally good "
    "duplicates survives) any admissible row is accepted. Inputs of non-mutating operations must stay unchanged. "
    "Non-trivial: >= 2 operations of >= 2 kinds incl. one that removed rows and one that renumbered."
)
ASSUMPTIONS = [
    "NaN holes are generated only in free fields (geom1, geom4, geom5); key and decision fields are finite",
    "requested subset values are distinct (a repeated request repeats the rows by construction of the function)",
    "merge_and_renumber: object numbers are compared as a relation (per input the old->new map must be a function and injective, maps of different inputs must have disjoint images), not as specific numbers",
    "drop_duplicates returns rows ordered by the duplicates column (documented by its sort); ties in the decision column admit any of the tied rows",
]
BUDGET = {"quick": {"examples": 1800, "seconds": 85}, "thorough": {"examples": 5000, "seconds": 540}}

C = oracle.MOTL_COLUMNS
IX = {c: i for i, c in enumerate(C)}
TAG = "subtomo_mean"

FIELDS = {
    "tomo_id": st.one_of(st.integers(1, 3), st.integers(1, 3), st.sampled_from([1, 2, 11, 12, 21, 111])).map(float),  # also numbers of two and three digits
    "object_id": st.one_of(st.integers(1, 5), st.integers(1, 5), st.sampled_from([0, 1, 2, 3, 11, 12, 13, 21, 111])).map(float),
    "class": st.integers(0, 3).map(float),  # 0 = unclassified / unassigned is a value like any other
    # scores: repeated values, arbitrary ones, and distinct doubles closer together than single precision resolves
    "score": st.one_of(st.sampled_from([0.1, 0.3, 0.5, 0.9]), gen.finite(-1, 1), st.sampled_from([0.5, 0.50000001, 0.50000002, 0.125, 0.1250000001, 0.9, 0.9000000001])),
    "geom1": st.one_of(gen.small_int, st.just(float("nan"))),
    "geom2": st.sampled_from([1.0, 2.0, 3.0, 7.5, 1.000001, 7.50001, 2.0000000001]),
    "geom3": gen.small_int,
    "geom4": st.one_of(gen.plain_float, st.just(float("nan"))),
    "geom5": st.one_of(gen.small_int, st.just(float("nan"))),
    "subtomo_mean": st.just(0.0),
    "x": gen.small_int, "y": gen.small_int, "z": gen.small_int,
}

KEYF = st.sampled_from(["tomo_id", "object_id", "class", "tomo_id", "geom2", "subtomo_id", "geom2"])


@st.composite
def op(draw):
    k = draw(st.sampled_from(["subset", "remove", "split", "intersection", "dropdup", "merge_renumber", "merge_dropdup",
                              "renumber_particles", "renumber_objects"]))
    o = {"op": k, "i": draw(st.integers(0, 5))}
    if k in ("subset", "remove"):
        o["field"] = draw(KEYF)
        o["picks"] = draw(st.one_of(st.lists(st.integers(0, 7), min_size=1, max_size=3, unique=True), st.lists(st.integers(0, 200), min_size=8, max_size=40, unique=True)))
        o["as_array"] = draw(st.booleans())
        o["absent"] = draw(st.integers(0, 5)) == 0
        o["scalar"] = draw(st.booleans())
        if k == "subset":
            o["reset_index"] = draw(st.booleans())
            o["return_df"] = draw(st.integers(0, 4)) == 0
    elif k == "split":
        o["field"] = draw(KEYF)
    elif k == "intersection":
        o["j"] = draw(st.integers(0, 5))
        o["field"] = draw(st.sampled_from(["subtomo_id", "subtomo_id", "tomo_id", "object_id", "class"]))
    elif k == "dropdup":
        o["col"] = draw(st.sampled_from(["subtomo_id", "subtomo_id", "geom3"]))
        o["decision"] = draw(st.sampled_from(["score", "score", "geom2"]))
        o["asc"] = draw(st.booleans())
        o["defaults"] = draw(st.integers(0, 3)) == 0
    elif k in ("merge_renumber", "merge_dropdup"):
        o["which"] = draw(st.lists(st.integers(0, 5), min_size=1, max_size=4))
    elif k == "renumber_objects":
        o["start"] = draw(st.one_of(st.just(None), st.integers(1, 30)))
    return o


def _table(dups):
    # large adjacent ids (2.5e5 + k) make "equal" and "nearly equal" field values different things
    ids = st.one_of(st.integers(1, 30), st.integers(250000, 250006)) if dups else st.one_of(st.integers(1, 5000), st.integers(250000, 250040))
    return gen.table(0, 12, fields=FIELDS, bulk_max=200, unique_ids=not dups, id_strategy=ids)


def strategy(tier):
    return st.fixed_dictionaries({
        "tables": st.lists(st.one_of(_table(False), _table(True)), min_size=1, max_size=3),
        "ops": st.lists(op(), min_size=1, max_size=10),
    })


def corner_cases(tier):
    rows = []
    for i, (sid, t, o, sc) in enumerate([(7, 2, 1, 0.5), (3, 1, 2, 0.9), (7, 1, 2, 0.1), (12, 2, 1, 0.3), (3, 2, 4, 0.9)]):
        r = [0.0] * 20
        r[IX["subtomo_id"]], r[IX["tomo_id"]], r[IX["object_id"]], r[IX["score"]], r[IX["class"]] = sid, t, o, sc, 1 + i % 2
        rows.append(r)
    t = {"cols": C, "rows": rows, "bulk": None, "index": "default"}
    yield {"tables": [t], "ops": [{"op": "renumber_objects", "i": 0, "start": 3}]}
    yield {"tables": [t, t], "ops": [{"op": "intersection", "i": 0, "j": 1, "field": "tomo_id"}]}
    yield {"tables": [t, t], "ops": [{"op": "merge_renumber", "i": 0, "which": [0, 1, 0]}, {"op": "dropdup", "i": 2, "col": "subtomo_id", "decision": "score", "asc": False, "defaults": True}]}
    yield {"tables": [t], "ops": [{"op": "split", "i": 0, "field": "tomo_id"}, {"op": "merge_dropdup", "i": 0, "which": [1, 2, 0]},
                                  {"op": "subset", "i": 3, "field": "class", "picks": [1, 0], "absent": False, "scalar": False, "reset_index": False, "return_df": False},
                                  {"op": "renumber_particles", "i": 4}]}
    # unassigned particles (object / class 0) removed or selected with the value given as a plain number
    rows0 = [list(r_) for r_ in rows]
    rows0[1][IX["object_id"]] = 0.0
    rows0[3][IX["object_id"]] = 0.0
    rows0[2][IX["class"]] = 0.0
    t0 = {"cols": C, "rows": rows0, "bulk": None, "index": "default"}
    for fld in ("object_id", "class"):
        for opn in ("remove", "subset"):
            yield {"tables": [t0], "ops": [{"op": opn, "i": 0, "field": fld, "picks": [{"object_id": 1, "class": 2}[fld]], "as_array": False, "absent": False, "scalar": True, "reset_index": True, "return_df": False}]}


def _bulk(rng, n, first_id):
    a = np.zeros((n, 20))
    a[:, IX["score"]] = rng.choice([0.1, 0.3, 0.5, 0.9, 0.7, 0.50000001, 0.50000002, 0.9000000001], n)
    a[:, IX["subtomo_id"]] = rng.permutation(np.arange(n) * 2 + first_id + 1)
    a[:, IX["tomo_id"]] = rng.integers(1, 4, n)
    a[:, IX["object_id"]] = rng.integers(1, 6, n)
    if first_id % 3 == 0:  # tomogram and object numbers of one to three digits
        a[:, IX["tomo_id"]] = np.array([1, 2, 11, 12, 21, 111])[rng.integers(0, 6, n)]
        a[:, IX["object_id"]] = np.array([1, 2, 3, 11, 12, 13, 21, 111])[rng.integers(0, 8, n)]
    a[:, IX["class"]] = rng.integers(1, 4, n)
    a[:, IX["geom2"]] = rng.choice([1.0, 2.0, 3.0], n)
    a[:, IX["geom3"]] = rng.integers(-5, 5, n)
    a[:, IX["x"]] = rng.integers(0, 100, n)
    g = rng.normal(0, 3, n)
    g[rng.random(n) < 0.1] = np.nan
    a[:, IX["geom4"]] = g
    return a


def norm(v):
    return 0.0 if (isinstance(v, float) and math.isnan(v)) else float(v)


def rows_of_df(df):
    a = df[C].to_numpy(dtype=float)
    return [[norm(float(v)) for v in r] for r in a]


def same_rows(out, got_df, model_rows, sig, step, order=True):
    if not out.check(list(sorted(got_df.columns)) == sorted(C) and len(got_df.columns) == 20, f"{sig}:columns", f"step {step}: {list(got_df.columns)}"):
        return False
    got = rows_of_df(got_df)
    exp = [[norm(v) for v in r] for r in model_rows]
    if not order:
        got, exp = sorted(got), sorted(exp)
    if got == exp:
        return True
    if len(got) != len(exp):
        kind = "row_count"
        detail = f"{len(got)} rows, model {len(exp)}"
    elif sorted(got) == sorted(exp):
        kind, detail = "row_order", f"tags {[int(r[IX[TAG]]) for r in got][:12]} vs {[int(r[IX[TAG]]) for r in exp][:12]}"
    elif sorted(int(r[IX[TAG]]) for r in got) == sorted(int(r[IX[TAG]]) for r in exp):
        i = next(i for i in range(len(got)) if got[i] != exp[i])
        j = next(j for j in range(20) if got[i][j] != exp[i][j]) if int(got[i][IX[TAG]]) == int(exp[i][IX[TAG]]) else None
        kind = "field_changed" if j is not None else "row_order_and_fields"
        detail = f"row {i} field {C[j] if j is not None else '?'}: got {got[i][j] if j is not None else ''} model {exp[i][j] if j is not None else ''}"
    else:
        kind, detail = "row_set", f"tags {sorted(int(r[IX[TAG]]) for r in got)[:12]} vs {sorted(int(r[IX[TAG]]) for r in exp)[:12]}"
    out.fail(f"{sig}:{kind}", f"step {step}: {detail}")
    return False


def distinct(rows, field):
    seen, outv = set(), []
    for r in rows:
        v = norm(r[IX[field]])
        if v not in seen:
            seen.add(v)
            outv.append(v)
    return outv


def run(case):
    from cryocat import cryomotl

    Motl = cryomotl.Motl
    out = Outcome()
    real, model = [], []
    tag = 1
    for t in case["tables"]:
        a = gen.table_array(t, _bulk)
        for r in a:
            r[IX[TAG]] = tag
            tag += 1
        tt = dict(t, rows=a.tolist(), bulk=None)
        df = gen.table_df(tt)
        ok, m = call(out, "Motl", lambda: Motl(df))
        if not ok:
            return out
        real.append(m)
        model.append([list(map(float, r)) for r in a])
    removed = renumbered = False
    kinds = set()

    def push(m, rows):
        if len(real) >= 6:
            real[-1], model[-1] = m, rows
        else:
            real.append(m)
            model.append(rows)

    for step, o in enumerate(case["ops"], 1):
        k = o["op"]
        i = o["i"] % len(real)
        m, rows = real[i], model[i]
        kinds.add(k)
        if k in ("subset", "remove"):
            f = o["field"]
            dv = distinct(rows, f)
            vals = [dv[p % len(dv)] for p in o["picks"]] if dv else []
            vals = list(dict.fromkeys(vals))
            if o["scalar"] and 0.0 in dv and step % 2 == 0:
                vals = [0.0]  # the typical clean-up request: drop / select the unassigned ones, given as a plain number
            if o["absent"] or not vals:
                vals.append(99.0)
            if len(o["picks"]) >= 8:
                # long request lists: most requested values do not occur in the list at all (removing a batch of ids from a sub-list)
                vals = vals[: max(1, len(vals) // 2)] + [7000.0 + p_ for p_ in o["picks"]]
            arg = vals[0] if (o["scalar"] and len(vals) == 1) else (np.array(vals, dtype=float) if o.get("as_array") and k == "remove" else list(vals))
            if isinstance(arg, np.ndarray):
                out.label("remove:values_as_ndarray", "remove:>=8_values" if len(vals) >= 8 else "remove:few_values")
            if k == "subset":
                before = m.df.copy()
                ok, r = call(out, "get_motl_subset", lambda: m.get_motl_subset(arg, feature_id=f, reset_index=o["reset_index"], return_df=o["return_df"]))
                if not ok:
                    return out
                exp = [r_ for v in vals for r_ in rows if norm(r_[IX[f]]) == v]
                rdf = r if o["return_df"] else r.df
                if not same_rows(out, rdf, exp, "subset", step):
                    return out
                if o["reset_index"]:
                    out.check(list(rdf.index) == list(range(len(rdf))), "subset:index_not_reset", f"step {step}")
                out.check(m.df.equals(before), "subset:modified_source_list", f"step {step}")
                if len(exp) < len(rows):
                    removed = True
                push(r if not o["return_df"] else Motl(rdf.copy()), [list(x) for x in exp])
            else:
                ok, _ = call(out, "remove_feature", lambda: m.remove_feature(f, arg))
                if not ok:
                    return out
                exp = [r_ for r_ in rows if norm(r_[IX[f]]) not in set(vals)]
                if not same_rows(out, m.df, exp, "remove", step):
                    return out
                if len(exp) < len(rows):
                    removed = True
                model[i] = exp
        elif k == "split":
            f = o["field"]
            before = m.df.copy()
            dv = distinct(rows, f)
            to_files = step % 2 == 0 and all(float(v) == int(v) for v in dv)  # the part files are named after the integer value
            if to_files:
                out.label("split:write_out")
                ok, parts = call(out, "split_by_feature", lambda: m.split_by_feature(f, write_out=True, output_prefix="part_"))
            else:
                ok, parts = call(out, "split_by_feature", lambda: m.split_by_feature(f))
            if not ok:
                return out
            if not out.check(len(parts) == len(dv), "split:number_of_parts", f"step {step}: {len(parts)} vs {len(dv)}"):
                return out
            # the pieces are matched to the values by their content: in which order they are returned is not part of the statement
            by_val = {}
            for p in parts:
                pv = {norm(v_) for v_ in p.df[f].tolist()} if len(p.df) else set()
                if not out.check(len(pv) == 1, "split:part_mixes_values_or_is_empty", f"step {step}: {sorted(map(str, pv))[:4]}"):
                    return out
                by_val.setdefault(next(iter(pv)), []).append(p)
            if not out.check(set(by_val) == set(dv) and all(len(v_) == 1 for v_ in by_val.values()), "split:parts_do_not_cover_the_values_once", f"step {step}"):
                return out
            parts = [by_val[v][0] for v in dv]
            for v, p in zip(dv, parts):
                exp = [r_ for r_ in rows if norm(r_[IX[f]]) == v]
                if not same_rows(out, p.df, exp, "split", step):
                    return out
            out.check(m.df.equals(before), "split:modified_source_list", f"step {step}")
            if to_files:
                for v, p in zip(dv, parts):
                    bad = oracle.em_motl_mismatch(f"part_{int(v)}.em", p.df)
                    if not out.check(bad is None, f"split:part_file_{bad}", f"step {step}: part_{int(v)}.em"):
                        return out
            # two live results: the pieces of a second, identical request are edited in place; neither the source list nor the
            # pieces of the first request may follow
            ok2, parts2 = call(out, "split_by_feature", lambda: m.split_by_feature(f))
            if ok2:
                for p2 in parts2:
                    _faults.scribble(p2)
                if not out.check(m.df.equals(before), "split:editing_a_piece_changed_the_source_list", f"step {step}: {len(dv)} piece(s)"):
                    return out
                for v, p in zip(dv, parts):
                    if not same_rows(out, p.df, [r_ for r_ in rows if norm(r_[IX[f]]) == v], "split:editing_a_piece_of_a_second_call_changed_the_first", step):
                        return out
            for v, p in list(zip(dv, parts))[:2]:
                push(p, [list(r_) for r_ in rows if norm(r_[IX[f]]) == v])  # the returned piece itself, as a caller would keep it
        elif k == "intersection":
            j = o["j"] % len(real)
            f = o["field"]
            b1, b2 = m.df.copy(), real[j].df.copy()
            ok, r = call(out, "get_motl_intersection", lambda: Motl.get_motl_intersection(m, real[j], feature_id=f))
            if not ok:
                return out
            keys = {norm(r_[IX[f]]) for r_ in model[j]}
            exp = [r_ for r_ in rows if norm(r_[IX[f]]) in keys]
            if any(sum(1 for r_ in model[j] if norm(r_[IX[f]]) == kv) > 1 for kv in keys):
                out.label("intersection:second_list_repeats_key")
            if not same_rows(out, r.df, exp, "intersection", step):
                return out
            out.check(m.df.equals(b1) and real[j].df.equals(b2), "intersection:modified_input_list", f"step {step}")
            if len(exp) < len(rows):
                removed = True
            push(r, [list(x) for x in exp])
        elif k == "dropdup":
            col, dec, asc = o["col"], o["decision"], o["asc"]
            if o["defaults"]:
                col, dec, asc = "subtomo_id", "score", False
                ok, _ = call(out, "drop_duplicates", lambda: m.drop_duplicates())
            else:
                ok, _ = call(out, "drop_duplicates", lambda: m.drop_duplicates(duplicates_column=col, decision_column=dec, decision_sort_ascending=asc))
            if not ok:
                return out
            if not out.check(sorted(m.df.columns) == sorted(C), "dropdup:columns", f"step {step}"):
                return out
            got = rows_of_df(m.df)
            groups = {}
            for r_ in rows:
                groups.setdefault(norm(r_[IX[col]]), []).append([norm(v) for v in r_])
            ids = [g[IX[col]] for g in got]
            # exactly one row per id; in which order the survivors come is not part of the statement
            if not out.check(sorted(ids) == sorted(groups.keys()), "dropdup:not_exactly_one_row_per_id", f"step {step}: ids {ids[:10]} vs {sorted(groups.keys())[:10]}"):
                return out
            newrows = []
            for g in got:
                grp = groups[g[IX[col]]]
                best = min(r_[IX[dec]] for r_ in grp) if asc else max(r_[IX[dec]] for r_ in grp)
                cands = [r_ for r_ in grp if r_[IX[dec]] == best]
                if g not in cands:
                    in_group = g in grp
                    out.fail("dropdup:kept_row_not_best" if in_group else "dropdup:row_altered", f"step {step}: id {g[IX[col]]} kept {dec}={g[IX[dec]]} best {best}")
                    return out
                newrows.append(g)
            if len(newrows) < len(rows):
                removed = True
                out.label("dropdup:removed_rows")
            model[i] = newrows
        elif k in ("merge_renumber", "merge_dropdup"):
            idx = [w % len(real) for w in o["which"]]
            befores = [real[w].df.copy() for w in idx]
            fn = Motl.merge_and_renumber if k == "merge_renumber" else Motl.merge_and_drop_duplicates
            ok, r = call(out, k, lambda: fn([real[w] for w in idx]))
            if not ok:
                return out
            for w, b in zip(idx, befores):
                out.check(real[w].df.equals(b), f"{k}:modified_input_list", f"step {step}")
            if not out.check(sorted(r.df.columns) == sorted(C), f"{k}:columns", f"step {step}"):
                return out
            got = rows_of_df(r.df)
            cat = [(pos, [norm(v) for v in r_]) for pos, w in enumerate(idx) for r_ in model[w]]
            if k == "merge_renumber":
                if not out.check(len(got) == len(cat), "merge_renumber:row_count", f"step {step}: {len(got)} vs {len(cat)}"):
                    return out
                out.check([g[IX["subtomo_id"]] for g in got] == [float(x) for x in range(1, len(got) + 1)], "merge_renumber:subtomo_ids_not_1_to_N", f"step {step}")
                skip = {IX["subtomo_id"], IX["object_id"]}
                for gi, (g, (pos, e)) in enumerate(zip(got, cat)):
                    if any(g[j] != e[j] for j in range(20) if j not in skip):
                        out.fail("merge_renumber:row_order_or_field_changed", f"step {step}: row {gi}")
                        return out
                maps = {}
                for g, (pos, e) in zip(got, cat):
                    mp = maps.setdefault(pos, {})
                    if mp.setdefault(e[IX["object_id"]], g[IX["object_id"]]) != g[IX["object_id"]]:
                        out.fail("merge_renumber:object_grouping_split", f"step {step}: input {pos} object {e[IX['object_id']]}")
                        return out
                for pos, mp in maps.items():
                    if len(set(mp.values())) != len(mp):
                        out.fail("merge_renumber:objects_merged_within_input", f"step {step}: input {pos} {mp}")
                        return out
                poss = sorted(maps)
                for a_ in range(len(poss)):
                    for b_ in range(a_ + 1, len(poss)):
                        inter = set(maps[poss[a_]].values()) & set(maps[poss[b_]].values())
                        if inter:
                            out.fail("merge_renumber:object_ids_collide_across_inputs", f"step {step}: inputs {poss[a_]},{poss[b_]} share {sorted(inter)[:4]}")
                            return out
                if len(poss) >= 2:
                    out.label("merge:>=2_nonempty_inputs")
                renumbered = True
                push(r, got)
            else:
                groups = {}
                for pos, e in cat:
                    groups.setdefault(e[IX["subtomo_id"]], []).append(e)
                ids = [g[IX["subtomo_id"]] for g in got]
                if not out.check(sorted(ids) == sorted(groups.keys()), "merge_dropdup:not_exactly_one_row_per_id", f"step {step}: {ids[:8]} vs {sorted(groups.keys())[:8]}"):
                    return out
                skip = {IX["object_id"]}
                for g in got:
                    grp = groups[g[IX["subtomo_id"]]]
                    best = max(e[IX["score"]] for e in grp)
                    if not any(e[IX["score"]] == best and all(g[j] == e[j] for j in range(20) if j not in skip) for e in grp):
                        out.fail("merge_dropdup:kept_row_not_best_or_altered", f"step {step}: id {g[IX['subtomo_id']]}")
                        return out
                if len(got) < len(cat):
                    removed = True
                push(r, got)
        elif k == "renumber_particles":
            small = len(rows) <= 30
            if small:  # queries before an in-place change must not be remembered after it
                call(out, "split_by_feature", lambda: m.split_by_feature("subtomo_id"))
                call(out, "get_unique_values", lambda: m.get_unique_values("subtomo_id"))
            ok, _ = call(out, "renumber_particles", lambda: m.renumber_particles())
            if not ok:
                return out
            if small:
                ok2, parts = call(out, "split_by_feature", lambda: m.split_by_feature("subtomo_id"))
                if ok2:
                    got_parts = [[int(v) for v in p_.df["subtomo_mean"].tolist()] for p_ in parts]
                    want_parts = [[int(r_[IX[TAG]])] for r_ in rows]
                    out.check(got_parts == want_parts, "split:stale_after_inplace_renumbering", f"{got_parts[:6]} vs {want_parts[:6]}")
            exp = [list(r_) for r_ in rows]
            for n_, r_ in enumerate(exp, 1):
                r_[IX["subtomo_id"]] = float(n_)
            if not same_rows(out, m.df, exp, "renumber_particles", step):
                return out
            model[i] = exp
            renumbered = True
        elif k == "renumber_objects":
            start = o["start"]
            ok, _ = call(out, "renumber_objects_sequentially", (lambda: m.renumber_objects_sequentially()) if start is None else (lambda: m.renumber_objects_sequentially(start)))
            if not ok:
                return out
            s0 = 1 if start is None else start
            if not out.check(sorted(m.df.columns) == sorted(C) and len(m.df.columns) == 20, "renumber_objects:columns", f"step {step}: {len(m.df.columns)} columns, missing {sorted(set(C) - set(m.df.columns))}"):
                return out
            got = rows_of_df(m.df)
            if not out.check(len(got) == len(rows), "renumber_objects:row_count", f"step {step}"):
                return out
            exp = [[norm(v) for v in r_] for r_ in rows]
            skip = {IX["object_id"]}
            by_order = all(all(g[j] == e[j] for j in range(20) if j not in skip) for g, e in zip(got, exp))
            if not by_order:
                srt = lambda rr: sorted([v for j, v in enumerate(x) if j not in skip] for x in rr)
                if srt(got) == srt(exp):
                    out.fail("renumber_objects:row_order_changed", f"step {step}")
                else:
                    out.fail("renumber_objects:other_field_changed", f"step {step}")
                return out
            mp = {}
            for g, e in zip(got, exp):
                key = (e[IX["tomo_id"]], e[IX["object_id"]])
                if mp.setdefault(key, g[IX["object_id"]]) != g[IX["object_id"]]:
                    out.fail("renumber_objects:group_split", f"step {step}: {key}")
                    return out
            vals = sorted(mp.values())
            if not out.check(len(set(vals)) == len(vals), "renumber_objects:groups_merged", f"step {step}: {mp}"):
                return out
            if not out.check(vals == [float(v) for v in range(s0, s0 + len(vals))], "renumber_objects:not_consecutive_from_start", f"step {step}: start {s0}: {vals[:10]}"):
                return out
            model[i] = got
            renumbered = True
        # pool invariant after every step: every list still has exactly the 20 columns
        for q, mm in enumerate(real):
            if not out.check(sorted(mm.df.columns) == sorted(C) and len(mm.df.columns) == 20, "pool:columns", f"step {step} list {q}"):
                return out
        # ... and holds exactly the rows its own history gives it: an operation on one list of the pool (a derived piece, the
        # list it was cut from) must not reach any other
        for q, mm in enumerate(real):
            if q != i and not same_rows(out, mm.df, model[q], "pool:other_list_changed_by", step, order=False):
                return out
    out.label(f"len:{len(case['ops'])}", *(f"op:{k}" for k in kinds))
    out.nontrivial = len(case["ops"]) >= 2 and len(kinds) >= 2 and removed and renumbered
    return out


# rejected calls that run before every case (vlib/faults.py): nothing they leave behind - module state, library options,
# stray files - may make the valid calls of the case violate the statement
from vlib import faults as _faults  # noqa: E402

fault_calls = _faults.for_property(ID)
