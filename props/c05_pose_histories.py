"""C05 - pose bookkeeping: position x+shift and orientation transform rigidly, under histories of operations."""
import math

import numpy as np
from hypothesis import strategies as st

from vlib import gen, oracle
from vlib.runner import Outcome, call

ID = "C05"
RULE = (
    "A particle table (1..12 rows element-wise, optional PRNG bulk up to 40; positions incl. exact half-integers of both "
    "signs, shifts incl. +-0.5, all rotation classes incl. gimbal lock, 1..4 tomograms, column permutation, non-default "
    "row labels) and a history of 1..6 operations from {update_coordinates, scale_coordinates(f in 0.1..8), "
    "shift_positions(s) in place or not, apply_rotation(Q), flip_handedness(single [x,y,z]), flip_handedness(per-"
    "tomogram table as array / DataFrame / text file (same path reused along the history), rows in any order, extra tomograms absent from the list), flip twice}. Model: "
    "per particle a complete position vector and an explicit 3x3 orientation matrix updated by the stated law "
    "(update: unchanged; scale: p*f; shift: p + R s; rotate: R Q; flip: p_z := dim_z+1-p_z, R := M R M, M = diag(1,1,-1)). "
    "After EVERY step: get_coordinates() == model, orientation matrices == model, all non-pose fields and the row order "
    "unchanged; after update: x,y,z integral and |shift| <= 0.5; flip twice restores all 20 fields. Non-trivial: history "
    "of >= 2 steps with >= 2 different operation kinds and some particle with non-zero shift and theta not in {0,180}."
)
ASSUMPTIONS = [
    "the direction in which an exact .5 tie is rounded is not part of the statement (either neighbour satisfies |shift| <= 0.5) and is not enforced",
    "per-tomogram dimension tables list every tomogram of the particle list (plus possibly others); flipping with a table that omits a tomogram is not specified",
    "position tolerance 1e-9 * max(1, |p|, scale history); only for particles that passed within 1e-4 rad of gimbal lock: + 2e-7 * (sum of |shift vectors| applied so far, scaled) and orientation tolerance 1e-6 instead of 1e-9; orientation matrices compared at 1e-6 (scipy as_euler switches to its gimbal-lock branch for |sin theta| < 1e-7, an approximation of ~3e-8)",
]
BUDGET = {"quick": {"examples": 1500, "seconds": 80}, "thorough": {"examples": 5000, "seconds": 540}}

vec = st.one_of(
    st.tuples(gen.finite(-20, 20), gen.finite(-20, 20), gen.finite(-20, 20)).map(list),
    st.sampled_from([[1.0, 0, 0], [0, 1.0, 0], [0, 0, 1.0], [0, 0, 0], [0.5, 0.5, 0.5], [3.0, 0, -2.0]]),
)
dims3 = st.tuples(st.integers(10, 400), st.integers(10, 400), st.integers(10, 300)).map(list)


@st.composite
def op(draw):
    k = draw(st.sampled_from(["update", "scale", "shift", "shift", "rotate", "rotate", "flip_single", "flip_table", "flip_twice"]))
    o = {"op": k}
    if k == "scale":
        o["f"] = draw(st.one_of(st.floats(0.1, 8, allow_nan=False), st.sampled_from([0.5, 2.0, 4.0, 1.0])))
    elif k == "shift":
        o["s"] = draw(vec)
        o["inplace"] = draw(st.booleans())
    elif k == "rotate":
        o["q"] = draw(gen.euler())
    elif k in ("flip_table", "flip_twice"):
        o["form"] = draw(st.sampled_from(["array", "frame", "file"]))
        o["perm"] = draw(st.integers(0, 10**6))
        o["use_table"] = draw(st.booleans()) if k == "flip_twice" else True
    return o


def strategy(tier):
    return st.fixed_dictionaries({
        "table": gen.table(1, 12, bulk_max=40, bulk_large=(250, 600)),
        "dims": st.lists(dims3, min_size=7, max_size=7),  # tomogram ids 1..7 (particles use 1..4)
        "ops": st.lists(op(), min_size=1, max_size=6),
        "int_xyz": st.sampled_from([False, False, False, True]),
        "tomo_from_zero": st.sampled_from([False, False, True]),  # extraction positions stored with an integer dtype (picked voxel indices)
    })


def corner_cases(tier):
    row = [0.9, 1, 2, 5, 2, 3, 0, 10.0, 20.0, 30.0, 0.25, -0.5, 1.75, 0, 0, 0, 30.0, 60.0, 45.0, 1]  # psi=60, theta=45
    row2 = [0.1, 1, 2, 9, 1, 3, 0, -10.5, 2.5, 7.0, 0.5, 0.5, -0.5, 0, 0, 0, -100.0, 10.0, 180.0, 2]
    t = {"cols": oracle.MOTL_COLUMNS, "rows": [row, row2], "bulk": None, "index": "default"}
    dims = [[100, 100, 50], [200, 120, 80]] + [[50, 50, 50]] * 5
    yield {"table": t, "dims": dims, "ops": [{"op": "flip_single"}]}
    yield {"table": t, "dims": dims, "ops": [{"op": "flip_table", "form": "array", "perm": 3, "use_table": True}, {"op": "update"},
                                              {"op": "flip_table", "form": "frame", "perm": 1, "use_table": True}]}
    yield {"table": t, "dims": dims, "ops": [{"op": "shift", "s": [1, 2, 3], "inplace": True}, {"op": "rotate", "q": [10, 20, 30]},
                                              {"op": "shift", "s": [-1, 0.5, 2], "inplace": False}, {"op": "update"}, {"op": "scale", "f": 2.0}]}
    yield {"table": dict(t, index="reversed"), "dims": dims, "ops": [{"op": "shift", "s": [1, 2, 3], "inplace": True}]}


POSE = ["x", "y", "z", "shift_x", "shift_y", "shift_z", "phi", "theta", "psi"]
OTHER = [c for c in oracle.MOTL_COLUMNS if c not in POSE]
MIR = np.diag([1.0, 1.0, -1.0])


def dims_table(case, o, tomos_present):
    rng = np.random.default_rng(o["perm"])
    ids = sorted(set(int(t) for t in tomos_present) | {int(i) for i in rng.choice(np.arange(1, 8), size=int(rng.integers(0, 4)), replace=False)})
    ids = list(rng.permutation(ids))
    tab = np.array([[i] + case["dims"][i - 1] for i in ids], dtype=float)
    return tab  # (the tomogram number in column 0 is lowered by one by the caller for lists numbered from 0)


def run(case):
    import pandas as pd
    from cryocat import cryomotl
    from scipy.spatial.transform import Rotation as srot

    out = Outcome()
    df0 = gen.table_df(case["table"])
    n = len(df0)
    if case.get("tomo_from_zero"):  # tomograms numbered from 0 (0-based exports of other packages)
        df0["tomo_id"] = df0["tomo_id"] - 1
        out.label("tomograms_numbered_from_0")
    if case.get("int_xyz"):
        for c_ in ("x", "y", "z"):
            df0[c_] = np.round(df0[c_].to_numpy()).astype(np.int64)
        out.label("integer_typed_xyz")
    ok, m = call(out, "Motl", lambda: cryomotl.Motl(df0.copy()))
    if not ok:
        return out
    P = df0[["x", "y", "z"]].to_numpy() + df0[["shift_x", "shift_y", "shift_z"]].to_numpy()
    R = oracle.R_cc_batch(df0[["phi", "theta", "psi"]].to_numpy())
    other0 = df0[OTHER].to_numpy()
    tomo = df0["tomo_id"].to_numpy()
    scale_hist = 1.0
    # particles whose orientation came within 1e-4 rad of gimbal lock when it was re-encoded as Euler angles: only for
    # those does scipy's extraction cost up to ~3e-8 rad (tolerances 1e-6 / shift-propagated slack); all others are held to 1e-9
    near_gimbal = np.abs(np.sin(np.radians(df0["theta"].to_numpy()))) < 1e-4
    slack = [0.0]  # orientation round-off (<= 2e-7 rad through scipy's near-gimbal-lock branch) carried into positions by shifts
    kinds = [o["op"] for o in case["ops"]]
    nz_shift = bool(np.any(np.abs(df0[["shift_x", "shift_y", "shift_z"]].to_numpy()).sum(axis=1) > 0)
                    and np.any(np.abs(np.sin(np.radians(df0["theta"].to_numpy()))) > 1e-6))
    out.nontrivial = len(kinds) >= 2 and len(set(kinds)) >= 2 and nz_shift
    out.label(f"len:{len(kinds)}", f"index:{case['table'].get('index', 'default')}", *(f"op:{k}" for k in set(kinds)))

    def verify(step, label):
        df = m.df
        if not out.check(len(df) == n and sorted(df.columns) == sorted(oracle.MOTL_COLUMNS), f"{label}:table_shape_changed", f"step {step}: {df.shape}"):
            return False
        got_other = df[OTHER].to_numpy()
        if not out.check(np.array_equal(got_other, other0), f"{label}:non_pose_field_or_row_order_changed", lambda: f"step {step}: first diff {np.argwhere(got_other != other0)[0].tolist()}"):
            return False
        ok_, C = call(out, "get_coordinates", lambda: m.get_coordinates())
        if not ok_:
            return False
        C = np.asarray(C, float)
        if not out.check(C.shape == P.shape, f"{label}:get_coordinates_shape", f"step {step}: {C.shape} for {n} particles"):
            return False
        for t_ in sorted(set(tomo.tolist()))[:3]:  # the documented per-tomogram form of the accessor
            ok_t, Ct = call(out, "get_coordinates(tomo_number)", lambda: m.get_coordinates(t_))
            if ok_t:
                Ct = np.asarray(Ct, float)
                sel = tomo == t_
                if not out.check(Ct.shape == C[sel].shape and np.array_equal(Ct, C[sel]), f"{label}:get_coordinates_of_one_tomogram_differs_from_its_rows", f"step {step}: tomogram {t_}: {Ct.shape} vs {C[sel].shape}"):
                    return False
        tolp = 1e-9 * np.maximum(1.0, np.abs(P)) * max(1.0, scale_hist) + slack[0] * near_gimbal[:, None]
        bad = np.abs(C - P) > tolp
        if bad.any():
            i, a = np.argwhere(bad)[0]
            out.fail(f"{label}:position", f"step {step}: particle row {i} axis {'xyz'[a]}: got {C[i, a]!r} model {P[i, a]!r}")
            return False
        G = oracle.R_cc_batch(df[["phi", "theta", "psi"]].to_numpy())
        err = np.abs(G - R).max(axis=(1, 2))
        if (err > np.where(near_gimbal, 1e-6, 1e-9)).any():
            i = int(np.argmax(err))
            out.fail(f"{label}:orientation", f"step {step}: particle row {i}: angles {df[['phi', 'theta', 'psi']].to_numpy()[i].tolist()} matrix error {err[i]:.3e}")
            return False
        ok_, rr = call(out, "get_rotations", lambda: m.get_rotations())
        if ok_:
            out.check(np.abs(rr.as_matrix().reshape(-1, 3, 3) - R).max() <= 1e-6, f"{label}:get_rotations", f"step {step}")
        return True

    if not verify(0, "initial"):
        return out
    held = []
    for step, o in enumerate(case["ops"], 1):
        k = o["op"]
        if k == "update":
            ok, _ = call(out, "update_coordinates", lambda: m.update_coordinates())
            if not ok:
                return out
            if sorted(m.df.columns) == sorted(oracle.MOTL_COLUMNS) and len(m.df) == n:
                xyz = m.df[["x", "y", "z"]].to_numpy()
                sh = m.df[["shift_x", "shift_y", "shift_z"]].to_numpy()
                out.check(bool(np.all(xyz == np.round(xyz))), "update:xyz_not_integral", lambda: f"step {step}: {xyz[xyz != np.round(xyz)][:3]}")
                out.check(bool(np.all(np.abs(sh) <= 0.5 + 1e-9 * np.maximum(1, np.abs(P)))), "update:shift_exceeds_half", lambda: f"step {step}: max |shift| {np.abs(sh).max()!r} (positions {P[np.argmax(np.abs(sh).max(axis=1))].tolist()})")
        elif k == "scale":
            f = o["f"]
            ok, _ = call(out, "scale_coordinates", lambda: m.scale_coordinates(f))
            if not ok:
                return out
            P = P * f
            scale_hist = max(scale_hist, scale_hist * f)
            slack[0] *= f
        elif k == "shift":
            s = np.array(o["s"], float)
            before = m.df.copy()
            if o["inplace"]:
                ok, _ = call(out, "shift_positions", lambda: m.shift_positions(list(o["s"])))
                if not ok:
                    return out
            else:
                ok, m2 = call(out, "shift_positions", lambda: m.shift_positions(list(o["s"]), inplace=False))
                if not ok:
                    return out
                out.check(m.df.equals(before), "shift:not_inplace_call_modified_original", f"step {step}")
                held.append((m, before, step))  # the source list stays alive while the history goes on with the new one
                m = m2
            P = P + np.einsum("nij,j->ni", R, s)
            slack[0] += 2e-7 * float(np.linalg.norm(s))
        elif k == "rotate":
            Q = oracle.R_cc(*o["q"])
            ok, _ = call(out, "apply_rotation", lambda: m.apply_rotation(srot.from_matrix(Q)))
            if not ok:
                return out
            R = R @ Q
            near_gimbal = near_gimbal | (np.hypot(R[:, 2, 0], R[:, 2, 1]) < 1e-4)
        elif k in ("flip_single", "flip_table", "flip_twice"):
            single = k == "flip_single" or (k == "flip_twice" and not o["use_table"])
            if single:
                d = case["dims"][0]
                arg = list(d)
                zdim = np.full(n, float(d[2]))
                # one size for all tomograms in any of its documented forms: list, array, 1x3 text file, IMOD tilt.com
                # (FULLIMAGE nx ny / THICKNESS nz; other entries of the file, e.g. IMAGEBINNED, do not change these numbers)
                sform = (step + n + int(d[0])) % 5
                if sform == 1:
                    arg = np.array(d, dtype=float)
                elif sform == 2:
                    np.savetxt("dims_single.txt", np.array([d], dtype=float), fmt="%g")
                    arg = "dims_single.txt"
                elif sform >= 3:
                    with open("tilt.com", "w") as fc:
                        fc.write("# Command file to run Tilt\n$tilt -StandardInput\nInputProjections ts.ali\nOutputFile ts_full.rec\n"
                                 + ("IMAGEBINNED %d\n" % (1 if sform == 3 else 4)) + "TILTFILE ts.tlt\nTHICKNESS %d\nRADIAL 0.35 0.035\nFULLIMAGE %d %d\nSHIFT 0.0 0.0\n" % (int(d[2]), int(d[0]), int(d[1])))
                    arg = "tilt.com"
                out.label(f"single_dims_form:{['list', 'array', 'text', 'com', 'com_binned'][sform]}")
            else:
                tab = dims_table(case, o, tomo + (1 if case.get("tomo_from_zero") else 0))
                if case.get("tomo_from_zero"):
                    tab[:, 0] -= 1
                if o["form"] == "file":
                    # any number format a text file may use: integers, fixed point, numpy's default exponent notation
                    fmt = ["%d", "%.1f", "%.18e", "%g", "%d"][(step + n + len(tab)) % 5]
                    out.label(f"dims_file_format:{fmt}")
                    np.savetxt("dims_all.txt", tab, fmt=fmt)
                    arg = "dims_all.txt"  # the same path in every step of the history
                else:
                    arg = tab if o["form"] == "array" else pd.DataFrame(tab)
                look = {int(r[0]): r[3] for r in tab}
                zdim = np.array([look[int(t)] for t in tomo])
                if any(int(r[0]) not in set(int(t) for t in tomo) for r in tab):
                    out.label("flip:table_lists_absent_tomogram")
            before20 = m.df[oracle.MOTL_COLUMNS].to_numpy().copy()
            reps = 2 if k == "flip_twice" else 1
            for rep in range(reps):
                arg_i = arg if isinstance(arg, str) else (arg.copy() if hasattr(arg, "copy") else list(arg))
                ok, _ = call(out, "flip_handedness", lambda: m.flip_handedness(arg_i))
                if not ok:
                    return out
                P = P.copy()
                P[:, 2] = zdim + 1 - P[:, 2]
                R = MIR @ R @ MIR
                if rep == 0 and reps == 2 and not verify(step, "flip"):
                    return out
            if k == "flip_twice" and sorted(m.df.columns) == sorted(oracle.MOTL_COLUMNS) and len(m.df) == n:
                after20 = m.df[oracle.MOTL_COLUMNS].to_numpy()
                d20 = np.abs(after20 - before20)
                out.check(bool(np.all(d20 <= 1e-9 * np.maximum(1, np.abs(before20)))), "flip:twice_does_not_restore_fields",
                          lambda: f"step {step}: field {oracle.MOTL_COLUMNS[int(np.argwhere(d20 > 1e-9 * np.maximum(1, np.abs(before20)))[0][1])]}")
        if not verify(step, k):
            return out
        # two live lists: whatever was done to the derived list since must not have reached the list it was derived from
        for mo, bf, st0 in held:
            if not out.check(mo.df.equals(bf), "shift:later_operation_on_the_new_list_changed_the_source_list", f"derived at step {st0}, seen after step {step} ({k})"):
                return out
    return out


# rejected calls that run before every case (vlib/faults.py): nothing they leave behind - module state, library options,
# stray files - may make the valid calls of the case violate the statement
from vlib import faults as _faults  # noqa: E402

fault_calls = _faults.for_property(ID)
