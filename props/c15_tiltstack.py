"""C15 - tilt-stack operations are lossless selections/permutations of tilt images."""
import os

import numpy as np
from hypothesis import strategies as st

from vlib import oracle
from vlib.runner import Outcome, call

ID = "C15"
RULE = (
    "Stacks with 2..25 tilts, independent image width/height 4..40, dtype float32/int16 with PRNG content (all images "
    "distinct), passed as array in x,y,n or n,y,x order or as an MRC file written by the harness' own writer; "
    "operation in {sort by angle (distinct angles in any order; list/array/text file), remove tilts (proper non-empty "
    "subset, 0- or 1-based; list/array/text file), even/odd split, flip along axes (applied twice too), centred crop, "
    "bin 2..4}, every input_order x output_order, output file on/off. Oracle on the stack as a list of 2-D images "
    "I_t[y,x]: reorder by ascending angle / delete listed / I_0,I_2.. and I_1,I_3.. / reverse t, rows, columns / window "
    "starting at floor(W/2)-floor(w/2) / block means over full blocks; the returned array in the requested order and the "
    "written file (own MRC parser: nx=width, ny=height, nz=tilts) must hold exactly that. Non-trivial: non-square "
    "images and ((input_order, output_order) != (xyz, xyz) or file input)."
)
ASSUMPTIONS = [
    "binning compares only full blocks (partial edge blocks are zero padded by the implementation and not part of the statement); int16 results compared within 1 (cast back to the stack dtype), float32 within 1e-4 relative",
    "tilt angles are multiples of 0.1 degree so that they stay distinct when a text file is read as float32",
    "flip axes follow the documented IMOD naming: 'x' reverses the rows (y index), 'y' reverses the columns, 'z' reverses the tilt order",
]
BUDGET = {"quick": {"examples": 5000, "seconds": 70}, "thorough": {"examples": 15000, "seconds": 480}}


@st.composite
def strategy_case(draw):
    n = draw(st.one_of(st.integers(2, 25), st.integers(2, 6)))
    w = draw(st.one_of(st.integers(4, 40), st.integers(4, 12)))
    h = draw(st.one_of(st.integers(4, 40), st.integers(4, 12)))
    c = {"n": n, "w": w, "h": h, "dtype": draw(st.sampled_from(["float32", "int16"])), "seed": draw(st.integers(0, 2**31 - 1)),
         "in_order": draw(st.sampled_from(["xyz", "zyx"])), "out_order": draw(st.sampled_from(["xyz", "zyx"])),
         "input": draw(st.sampled_from(["array", "array", "file"])), "write": draw(st.booleans()),
         "op": draw(st.sampled_from(["sort", "remove", "evenodd", "flip", "crop", "bin", "merge"]))}
    op = c["op"]
    if op == "merge":
        if n < 4:
            c["n"] = n = draw(st.integers(4, 25))
        # cut points of the stack into k >= 2 part files holding at least two tilts each; numbering plain or zero padded
        k = draw(st.integers(2, n // 2))
        sizes = [2] * k
        for _ in range(n - 2 * k):
            sizes[draw(st.integers(0, k - 1))] += 1
        c["parts"] = sizes
        c["pad"] = draw(st.sampled_from([0, 0, 3]))
    if op == "sort":
        vals = draw(st.lists(st.integers(-700, 700), min_size=n, max_size=n, unique=True))
        c["angles"] = [v / 10.0 for v in vals]
        c["angles_as"] = draw(st.sampled_from(["list", "array", "file"]))
        if c["angles_as"] != "file" and draw(st.booleans()):
            # refined angles (from alignment): distinct values much closer together than 0.1 degree
            fine = draw(st.lists(st.integers(-5000, 5000), min_size=n, max_size=n, unique=True))
            c["angles"] = [12.0 + v * 1e-3 for v in fine]
    elif op == "remove":
        k = draw(st.integers(1, n - 1))
        c["idx"] = draw(st.lists(st.integers(0, n - 1), min_size=k, max_size=k, unique=True))
        c["from1"] = draw(st.booleans())
        c["idx_as"] = draw(st.sampled_from(["list", "array", "file", "csv"]))
        c["positional"] = draw(st.booleans())
    elif op == "flip":
        c["axes"] = draw(st.one_of(st.sampled_from(["x", "y", "z"]), st.lists(st.sampled_from(["x", "y", "z"]), min_size=1, max_size=4)))
    elif op == "crop":
        c["new_w"] = draw(st.one_of(st.none(), st.integers(1, w)))
        c["new_h"] = draw(st.one_of(st.none(), st.integers(1, h)))
    elif op == "bin":
        c["factor"] = draw(st.integers(2, 4))
    return c


def strategy(tier):
    return strategy_case()


def corner_cases(tier):
    base = {"n": 5, "w": 10, "h": 7, "dtype": "float32", "seed": 3, "in_order": "xyz", "out_order": "zyx", "input": "file", "write": True}
    yield dict(base, op="crop", new_w=5, new_h=3)
    yield dict(base, op="remove", idx=[3], from1=True, idx_as="file")
    yield dict(base, op="remove", idx=[0, 4], from1=False, idx_as="array")
    yield dict(base, op="sort", angles=[3.0, -60.0, 12.5, 0.0, -3.0], angles_as="file")
    yield dict(base, op="flip", axes=["x"], dtype="int16")
    yield dict(base, op="bin", factor=2, dtype="int16", w=8, h=6)
    yield dict(base, op="evenodd")


def images(c):
    rng = np.random.default_rng(c["seed"])
    if c["dtype"] == "int16":
        # detector counts: every other stack uses the upper part of the int16 range (sums of a few pixels exceed it)
        lo, hi = ((-3000, 3000) if c["seed"] % 2 else (0, 32000)) if c["seed"] % 4 else (-32000, 32000)
        a = rng.integers(lo, hi, size=(c["n"], c["h"], c["w"])).astype(np.int16)
    else:
        a = rng.normal(0, 10, size=(c["n"], c["h"], c["w"])).astype(np.float32)
    for t in range(c["n"]):
        a[t, 0, 0] = t + 1  # all images distinct and identifiable
    return a


def to_images(arr, order):
    arr = np.asarray(arr)
    return arr.transpose(2, 1, 0) if order == "xyz" else arr


def compare(out, got_imgs, exp_imgs, sig, tol=None):
    g = np.asarray(got_imgs)
    e = np.asarray(exp_imgs)
    if not out.check(g.shape == e.shape, f"{sig}:shape", f"{g.shape} vs {e.shape} (tilts, height, width)"):
        return False
    if tol is None:
        same = np.array_equal(g, e)
    else:
        same = bool(np.all(np.abs(g.astype(float) - e.astype(float)) <= tol))
    if not same:
        # classify: permutation of whole images?
        kind = "values"
        if tol is None and g.shape[0] == e.shape[0]:
            keys_g = [x.tobytes() for x in g]
            keys_e = [x.tobytes() for x in e]
            if sorted(keys_g) == sorted(keys_e):
                kind = "image_order"
            elif all(np.array_equal(np.sort(a, axis=None), np.sort(b, axis=None)) for a, b in zip(g, e)):
                kind = "pixels_permuted_within_images"
        out.fail(f"{sig}:{kind}", f"first differing tilt {int(np.argmax([not np.array_equal(a, b) for a, b in zip(g, e)]))}")
    return same


def run(case):
    from cryocat import tiltstack

    c = case
    out = Outcome()
    I = images(c)
    n, h, w = I.shape
    dt = I.dtype
    op = c["op"]
    out.label(f"op:{op}", f"in:{c['input']}", f"orders:{c['in_order']}->{c['out_order']}", c["dtype"])
    out.nontrivial = (w != h) and ((c["in_order"], c["out_order"]) != ("xyz", "xyz") or c["input"] == "file")
    if c["input"] == "file":
        oracle.mrc_write("in.mrc", np.ascontiguousarray(I.transpose(2, 1, 0)))
        inp = "in.mrc"
    else:
        inp = np.ascontiguousarray(I.transpose(2, 1, 0)) if c["in_order"] == "xyz" else I.copy()
    keep = inp.copy() if isinstance(inp, np.ndarray) else None
    kw = {"input_order": c["in_order"], "output_order": c["out_order"]}
    outfile = "out.mrc" if c["write"] else None
    tol = None

    def check_file(path, exp, sig):
        if not out.check(os.path.isfile(path), f"{sig}:file_missing", path):
            return
        try:
            f = oracle.mrc_read(path)
        except Exception as e:
            out.fail(f"{sig}:file_not_parseable", repr(e))
            return
        out.check(f["dtype"] == dt, f"{sig}:file_dtype", f"{f['dtype']} vs {dt}")
        compare(out, f["data"].transpose(2, 1, 0), exp, sig + ":file", tol)
        return f["data"].transpose(2, 1, 0)

    if op == "merge":
        # part files numbered 1..k (more than nine parts make the lexical and the numeric file order differ)
        start = 0
        for j, sz_ in enumerate(c["parts"]):
            oracle.mrc_write(("part_%0" + str(c["pad"]) + "d.mrc") % (j + 1) if c["pad"] else f"part_{j + 1}.mrc", np.ascontiguousarray(I[start:start + sz_].transpose(2, 1, 0)))
            start += sz_
        out.label(f"parts:{'10+' if len(c['parts']) >= 10 else len(c['parts'])}", "padded" if c["pad"] else "unpadded")
        out.nontrivial = (w != h) and len(c["parts"]) >= 3
        ok, r = call(out, "merge", lambda: tiltstack.merge("part_*.mrc", output_file="merged.mrc" if c["write"] else None, output_order=c["out_order"]))
        if ok:
            compare(out, to_images(r, c["out_order"]), I, "merge")
            if c["write"]:
                check_file("merged.mrc", I, "merge")
        return out
    if op == "evenodd":
        ok, r = call(out, "split_stack_even_odd", lambda: tiltstack.split_stack_even_odd(inp, output_file_prefix="eo" if c["write"] else None, **kw))
        if ok:
            if out.check(isinstance(r, tuple) and len(r) == 2, "evenodd:return", type(r)):
                ev, od = to_images(r[0], c["out_order"]), to_images(r[1], c["out_order"])
                compare(out, ev, I[0::2], "evenodd:even")
                compare(out, od, I[1::2], "evenodd:odd")
                if ev.shape[1:] == od.shape[1:] == I.shape[1:] and len(ev) == len(I[0::2]) and len(od) == len(I[1::2]):
                    inter = np.empty_like(I)
                    inter[0::2], inter[1::2] = ev, od
                    out.check(np.array_equal(inter, I), "evenodd:interleave_not_input", "")
            if c["write"]:
                check_file("eo_even.mrc", I[0::2], "evenodd:even")
                check_file("eo_odd.mrc", I[1::2], "evenodd:odd")
    else:
        if op == "sort":
            ang = c["angles"]
            exp = I[np.argsort(np.array(ang), kind="stable")]
            if c["angles_as"] == "list":
                a_in = list(ang)
            elif c["angles_as"] == "array":
                a_in = np.array(ang)
            else:
                with open("angles.tlt", "w") as f:
                    f.write("".join(f"{v:.1f}\n" for v in ang))
                a_in = "angles.tlt"
            out.label(f"angles:{c['angles_as']}")
            fn = lambda x: tiltstack.sort_tilts_by_angle(x, a_in, output_file=outfile, **kw)
        elif op == "remove":
            idx0 = sorted(c["idx"])
            exp = I[[t for t in range(n) if t not in set(idx0)]]
            given = [i + 1 for i in c["idx"]] if c["from1"] else list(c["idx"])
            if c["idx_as"] == "list":
                i_in = list(given)
            elif c["idx_as"] == "array":
                i_in = np.array(given)
            elif c["idx_as"] == "csv":
                # the table form: one row per tilt with a ToBeRemoved flag (no numbering involved, whatever numbered_from_1 says)
                with open("idx.csv", "w") as f:
                    f.write("TiltAngle,ToBeRemoved\n" + "".join(f"{t * 3.0 - 30:.1f},{t in set(idx0)}\n" for t in range(n)))
                i_in = "idx.csv"
            else:
                with open("idx.txt", "w") as f:
                    f.write("".join(f"{v}\n" for v in given))
                i_in = "idx.txt"
            out.label(f"idx:{c['idx_as']}", "from1" if c["from1"] else "from0", "single_index" if len(given) == 1 else "multi_index")
            keep_idx = i_in.copy() if isinstance(i_in, np.ndarray) else None
            # the flag as a caller may hold it: the builtin, numpy's boolean (the result of a comparison) or 0 / 1
            from1_arg = [bool(c["from1"]), np.bool_(c["from1"]), int(bool(c["from1"]))][(len(given) + n) % 3]
            out.label(f"from1_flag_as:{type(from1_arg).__name__}")
            if c.get("positional"):  # the documented order of the first four parameters
                out.label("remove:positional_arguments")
                fn = lambda x: tiltstack.remove_tilts(x, i_in, from1_arg, outfile, **kw)
            else:
                fn = lambda x: tiltstack.remove_tilts(x, i_in, numbered_from_1=from1_arg, output_file=outfile, **kw)
        elif op == "flip":
            axes = c["axes"]
            exp = I
            for a in ([axes] if isinstance(axes, str) else axes):
                exp = exp[::-1] if a == "z" else (exp[:, ::-1, :] if a == "x" else exp[:, :, ::-1])
            fn = lambda x: tiltstack.flip_along_axes(x, axes if isinstance(axes, str) else list(axes), output_file=outfile, **kw)
        elif op == "crop":
            nw = c["new_w"] if c["new_w"] is not None else w
            nh = c["new_h"] if c["new_h"] is not None else h
            sw, shh = w // 2 - nw // 2, h // 2 - nh // 2
            exp = I[:, shh:shh + nh, sw:sw + nw]
            out.label("crop:even_to_odd" if (w % 2 == 0 and nw % 2 == 1) or (h % 2 == 0 and nh % 2 == 1) else "crop:other")
            fn = lambda x: tiltstack.crop(x, new_width=c["new_w"], new_height=c["new_h"], output_file=outfile, **kw)
        else:
            f_ = c["factor"]
            hh, ww = h // f_, w // f_
            if hh == 0 or ww == 0:
                out.filtered = "bin_no_full_block"
                return out
            exp = I[:, :hh * f_, :ww * f_].astype(np.float64).reshape(n, hh, f_, ww, f_).mean(axis=(2, 4))
            tol = 1.0 + 1e-9 if c["dtype"] == "int16" else 1e-4 * (1 + np.abs(exp))
            fn = lambda x: tiltstack.bin(x, f_, output_file=outfile, **kw)
        ok, r = call(out, op, lambda: fn(inp))
        if ok:
            got = to_images(r, c["out_order"])
            if op != "bin":  # selections and permutations keep the pixel type; block means may legitimately be stored in a wider type
                out.check(np.asarray(r).dtype == dt, f"{op}:return_dtype", f"{np.asarray(r).dtype} vs {dt}")
            if op == "bin":
                if out.check(got.shape[0] == n and got.shape[1] >= hh and got.shape[2] >= ww and got.shape[1] == -(-h // f_) and got.shape[2] == -(-w // f_),
                             "bin:shape", f"{got.shape} for {I.shape} factor {f_}"):
                    compare(out, got[:, :hh, :ww], exp, "bin", tol)
                    if c["write"] and os.path.isfile("out.mrc"):
                        fl = oracle.mrc_read("out.mrc")
                        out.check(fl["dims"] == (got.shape[2], got.shape[1], n), "bin:file_dims", f"{fl['dims']}")
                        compare(out, fl["data"].transpose(2, 1, 0)[:, :hh, :ww], exp, "bin:file", tol)
                        if fl["dims"] == (got.shape[2], got.shape[1], n):
                            fi = fl["data"].transpose(2, 1, 0)
                            d = np.abs(fi.astype(float) - got.astype(float)).max()
                            out.check(d == 0 if c["dtype"] == "int16" else d <= 1e-6 * (1 + np.abs(got).max()), "bin:file_differs_from_returned_array", f"max diff {d}")
                    elif c["write"]:
                        out.fail("bin:file_missing", "")
            else:
                compare(out, got, exp, op)
                if c["write"]:
                    fi = check_file("out.mrc", exp, op)
                    if fi is not None and fi.shape == got.shape:
                        out.check(np.array_equal(fi, got), f"{op}:file_differs_from_returned_array", "")
            if op == "flip":
                # twice == identity (feed the result back in the order it was returned)
                ok2, r2 = call(out, "flip", lambda: tiltstack.flip_along_axes(np.asarray(r), axes if isinstance(axes, str) else list(axes)[::-1],
                                                                              input_order=c["out_order"], output_order="zyx"))
                if ok2:
                    out.check(np.array_equal(np.asarray(r2), I), "flip:twice_not_identity", f"axes {axes}")
            if op == "remove" and keep_idx is not None:
                out.check(np.array_equal(i_in, keep_idx), "remove:index_array_modified", "")
                # same request again must give the same answer (no state between calls)
                ok3, r3 = call(out, "remove", lambda: fn(inp))
                if ok3:
                    out.check(np.array_equal(np.asarray(r3), np.asarray(r)), "remove:second_call_differs", "")
    if keep is not None:
        out.check(np.array_equal(inp, keep), f"{op}:input_array_modified", "")
    elif op == "flip" and not out.violations:
        # the file is replaced by another stack under the same name: the next call must see the new content
        I2 = I[::-1].copy()
        I2[:, 0, 0] += 100
        oracle.mrc_write("in.mrc", np.ascontiguousarray(I2.transpose(2, 1, 0)))
        exp2 = I2
        for a_ in ([c["axes"]] if isinstance(c["axes"], str) else c["axes"]):
            exp2 = exp2[::-1] if a_ == "z" else (exp2[:, ::-1, :] if a_ == "x" else exp2[:, :, ::-1])
        ok4, r4 = call(out, "flip", lambda: tiltstack.flip_along_axes("in.mrc", c["axes"] if isinstance(c["axes"], str) else list(c["axes"]), **kw))
        if ok4:
            out.check(np.array_equal(to_images(r4, c["out_order"]), exp2), "flip:stale_file_content_after_rewrite", "")
    return out


# rejected calls that run before every case (vlib/faults.py): nothing they leave behind - module state, library options,
# stray files - may make the valid calls of the case violate the statement
from vlib import faults as _faults  # noqa: E402

fault_calls = _faults.for_property(ID)
