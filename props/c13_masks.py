"""C13 - masks: analytic shapes and voxel-wise set algebra."""
import math

import numpy as np
from hypothesis import strategies as st

from vlib import oracle
from vlib.runner import Outcome, call

ID = "C13"
RULE = (
    "Boxes with independent sizes 6..48 per axis (even sizes for ellipsoids), centres anywhere inside the box incl. "
    "faces/corners or the default, radii/heights from 1 (integers and half-integers) to beyond the box or the "
    "defaults, Gaussian sigma in {0, 0.5..3} with both edge modes, shape strings for the name-based generator, and "
    "lists of 1..5 masks of dtype float64/float32/int/bool (binary from PRNG bits, soft from PRNG uniforms). Oracle: "
    "membership by the analytic inequality in exact integer/rational arithmetic (sphere, cylinder with slab clipped to "
    "the box, ellipsoid, shells = outer solid minus inner solid), generate_mask(name) == analytic shape on the "
    "documented default size, soft masks in [0,1] and core >= 1-1e-3 when blurred outwards, union/intersection/"
    "subtraction/difference == OR/AND/AND-NOT/XOR (union minus intersection for > 2 masks), inputs bit-identical "
    "afterwards, result shape == input shape. Non-trivial: non-cubic box with off-centre mask, or a mask clipped by "
    "the box, or mixed dtypes in an algebra case."
)
ASSUMPTIONS = [
    "radii are integers or half-integers so that d^2 <= r^2 has no floating-point ties; ellipsoid voxels whose rational sum((i-c)/r)^2 is within 1e-12 of 1 are skipped (counted in the label 'ellipsoid_tie_voxels')",
    "shell thickness <= 2*radius (inner radius >= 0); ellipsoid shells use the documented integer truncation of radii +- thickness/2 and inner radii >= 1",
    "the centre of a sphere/cylinder is an index inside the box (the implementation addresses the centre voxel)",
    "difference of more than two masks is union minus intersection (documented definition)",
]
EXHAUSTIVE = "every centre (336) of a 6x7x8 box x radii {1, 2.5, 4, 9}: hard spheres and cylinders (2 688 masks)"
BUDGET = {"quick": {"examples": 3000, "seconds": 75}, "thorough": {"examples": 10000, "seconds": 480}}

dim = st.one_of(st.integers(6, 48), st.integers(6, 16))
even_dim = st.integers(3, 24).map(lambda k: 2 * k)
rad = st.one_of(st.integers(1, 12), st.integers(1, 60), st.integers(1, 30).map(lambda k: k + 0.5))
sigma_s = st.one_of(st.just(0.0), st.just(0.0), st.sampled_from([0.5, 1.0, 2.0, 3.0]), st.floats(0.5, 3.0, allow_nan=False))


def _limit(shape, cap=40000):
    shape = list(shape)
    while shape[0] * shape[1] * shape[2] > cap:
        i = int(np.argmax(shape))
        shape[i] = max(6, (shape[i] // 2) // 2 * 2)
    return shape


@st.composite
def center_in(draw, shape):
    k = draw(st.integers(0, 11))
    if k <= 2:
        return None
    if k == 3:  # a corner of the box, the origin corner included
        return [draw(st.sampled_from([0, n - 1])) for n in shape] if draw(st.booleans()) else [0, 0, 0]
    c = []
    for n in shape:
        c.append(draw(st.one_of(st.integers(0, n - 1), st.sampled_from([0, n - 1, n // 2]))))
    return c


@st.composite
def shape_case(draw):
    kind = draw(st.sampled_from(["sphere", "sphere", "cylinder", "cylinder", "ellipsoid", "s_shell", "e_shell", "name"]))
    sig = draw(sigma_s)
    c = {"kind": kind, "sigma": sig, "outwards": draw(st.booleans())}
    if kind in ("ellipsoid", "e_shell"):
        shape = _limit([draw(even_dim), draw(even_dim), draw(even_dim)])
    else:
        shape = _limit([draw(dim), draw(dim), draw(dim)])
    c["shape"] = shape
    c["center"] = draw(center_in(shape))
    if kind == "sphere":
        c["radius"] = draw(st.one_of(st.none(), rad))
    elif kind == "cylinder":
        c["radius"] = draw(st.one_of(st.none(), rad))
        c["height"] = draw(st.one_of(st.none(), st.integers(1, 60), st.integers(1, 12)))
    elif kind == "ellipsoid":
        c["radii"] = draw(st.one_of(st.none(), st.lists(st.integers(1, 30), min_size=3, max_size=3)))
    elif kind == "s_shell":
        r = draw(st.integers(1, 25))
        c["radius"] = draw(st.sampled_from([r, r, None]))
        rr = r if c["radius"] is not None else min(shape) // 2
        c["thickness"] = draw(st.integers(1, max(1, 2 * rr)))
    elif kind == "e_shell":
        radii = draw(st.lists(st.integers(2, 20), min_size=3, max_size=3))
        c["radii"] = radii
        c["thickness"] = draw(st.integers(1, max(1, 2 * (min(radii) - 1))))
    else:
        which = draw(st.sampled_from(["sphere", "cylinder", "s_shell", "ellipsoid", "e_shell"]))
        if which == "sphere":
            c["name"] = f"sphere_r{draw(st.integers(1, 12))}"
        elif which == "cylinder":
            c["name"] = f"cylinder_r{draw(st.integers(1, 10))}_h{draw(st.integers(1, 12))}"
        elif which == "s_shell":
            r = draw(st.integers(1, 10))
            c["name"] = f"s_shell_r{r}_s{draw(st.integers(1, 2 * r))}"
        elif which == "ellipsoid":
            c["name"] = "ellipsoid_rx%d_ry%d_rz%d" % tuple(draw(st.integers(1, 10)) for _ in range(3))
        else:
            rs = [draw(st.integers(2, 10)) for _ in range(3)]
            c["name"] = "e_shell_rx%d_ry%d_rz%d_s%d" % (rs[0], rs[1], rs[2], draw(st.integers(1, 2 * (min(rs) - 1))))
        c["explicit_size"] = draw(st.one_of(st.none(), st.integers(6, 15).map(lambda k: 2 * k)))
        c["sigma"] = 0.0
    return c


@st.composite
def algebra_case(draw):
    shape = _limit([draw(st.integers(1, 14)), draw(st.integers(1, 14)), draw(st.integers(1, 14))], 3000)
    n = draw(st.integers(1, 5))
    masks = []
    for _ in range(n):
        masks.append({"dtype": draw(st.sampled_from(["float64", "float32", "int64", "bool", "int8", "float64"])),
                      "soft": False, "seed": draw(st.integers(0, 2**31 - 1)), "p": draw(st.sampled_from([0.2, 0.5, 0.8, 0.0, 1.0]))})
    soft = draw(st.integers(0, 3)) == 0
    if soft:
        for m in masks:
            if m["dtype"].startswith("float"):
                m["soft"] = True
    return {"kind": "algebra", "shape": shape, "masks": masks, "op": draw(st.sampled_from(["union", "intersection", "subtraction", "difference"])),
            "via_file": draw(st.integers(0, 5)) == 0}


def strategy(tier):
    return st.one_of(shape_case(), shape_case(), algebra_case())


def corner_cases(tier):
    yield {"kind": "cylinder", "sigma": 0.0, "outwards": True, "shape": [10, 10, 10], "center": None, "radius": None, "height": None}
    yield {"kind": "cylinder", "sigma": 0.0, "outwards": True, "shape": [12, 10, 8], "center": [3, 4, 1], "radius": 3, "height": 9}
    yield {"kind": "algebra", "shape": [3, 4, 5], "op": "subtraction", "via_file": False,
           "masks": [{"dtype": "bool", "soft": False, "seed": 1, "p": 0.5}, {"dtype": "float64", "soft": False, "seed": 2, "p": 0.5}]}
    yield {"kind": "algebra", "shape": [3, 4, 5], "op": "subtraction", "via_file": False,
           "masks": [{"dtype": "int64", "soft": False, "seed": 1, "p": 0.5}, {"dtype": "float64", "soft": False, "seed": 2, "p": 0.5}]}
    yield {"kind": "sphere", "sigma": 0.0, "outwards": True, "shape": [9, 14, 11], "center": [0, 13, 5], "radius": 4.5}
    yield {"kind": "ellipsoid", "sigma": 0.0, "outwards": True, "shape": [12, 16, 10], "center": [3, 8, 9], "radii": [3, 7, 2]}
    if tier == "thorough":
        # exhaustive: every centre of a 6x7x8 box x four radii, spheres and cylinders (cylinder heights 1, 4, 9)
        for cx in range(6):
            for cy in range(7):
                for cz in range(8):
                    for r in (1, 2.5, 4, 9):
                        yield {"kind": "sphere", "sigma": 0.0, "outwards": True, "shape": [6, 7, 8], "center": [cx, cy, cz], "radius": r}
                        yield {"kind": "cylinder", "sigma": 0.0, "outwards": True, "shape": [6, 7, 8], "center": [cx, cy, cz], "radius": r, "height": [1, 4, 9][(cx + cy + cz) % 3]}


# ----------------------------------------------------------------------------------------------
def idx_grids(shape):
    return np.meshgrid(*[np.arange(n) for n in shape], indexing="ij")


def two_r_sq(r):
    """(2r)^2 as an exact integer for integer or half-integer r."""
    t = int(round(2 * r))
    assert abs(2 * r - t) < 1e-12
    return t * t


def sphere_set(shape, c, r):
    if r < 0:
        return np.zeros(shape, bool)
    I = idx_grids(shape)
    d2 = sum((I[a] - c[a]) ** 2 for a in range(3))
    return 4 * d2 <= two_r_sq(r)


def cyl_set(shape, c, r, half_h):
    I = idx_grids(shape)
    d2 = (I[0] - c[0]) ** 2 + (I[1] - c[1]) ** 2
    return (4 * d2 <= two_r_sq(r)) & (np.abs(I[2] - c[2]) <= half_h)


def ell_set(shape, c, radii):
    """returns (inside, tie) with exact integer arithmetic: sum d_a^2 * prod_{b != a} r_b^2 <= prod r^2."""
    I = idx_grids(shape)
    r2 = [int(r) ** 2 for r in radii]
    P = r2[0] * r2[1] * r2[2]
    lhs = sum(((I[a] - c[a]).astype(object) ** 2) * (P // r2[a]) for a in range(3))
    lhs = np.array(lhs, dtype=object)
    inside = np.frompyfunc(lambda v: v <= P, 1, 1)(lhs).astype(bool)
    tie = np.frompyfunc(lambda v: abs(v - P) * 10**12 <= P, 1, 1)(lhs).astype(bool)
    # on-axis boundary voxels (two zero offsets) evaluate to exactly 1.0 in floating point as well: they stay decidable
    nz = sum((I[a] != c[a]).astype(int) for a in range(3))
    tie &= ~(nz <= 1)
    return inside, tie


def default_center(shape):
    return [n // 2 for n in shape]


def compare_binary(out, got, exp, sig, detail="", skip=None):
    g = np.asarray(got)
    if not out.check(g.shape == exp.shape, f"{sig}:shape", f"{g.shape} vs {exp.shape}"):
        return
    vals = np.unique(g)
    if not out.check(bool(np.all(np.isin(vals, [0, 1]))), f"{sig}:not_binary", vals[:5]):
        return
    gb = g.astype(bool)
    diff = gb != exp
    if skip is not None:
        diff &= ~skip
    if diff.any():
        i = np.argwhere(diff)[0].tolist()
        extra = int((gb & ~exp & diff).sum())
        missing = int((~gb & exp & diff).sum())
        out.fail(f"{sig}:membership", f"{detail} first diff at voxel {i}: got {int(gb[tuple(i)])}; {extra} extra, {missing} missing voxels")


def run(case):
    out = Outcome()
    if case["kind"] == "algebra":
        run_algebra(case, out)
    else:
        run_shape(case, out)
    return out


def run_shape(case, out):
    from cryocat import cryomask

    kind = case["kind"]
    shape = tuple(case["shape"])
    s = float(case["sigma"])
    outwards = case["outwards"]
    c_in = case["center"]
    c = list(c_in) if c_in is not None else default_center(shape)
    noncubic = len(set(shape)) > 1
    offcentre = c_in is not None and c != default_center(shape)
    out.label(f"kind:{kind}", "soft" if s > 0 else "hard")
    kw = {}
    if c_in is not None:
        kw["center"] = list(c_in)
    clipped = False
    core = None

    if kind == "sphere":
        r_req = case["radius"]
        r = r_req if r_req is not None else min(shape) // 2
        if r_req is not None:
            kw["radius"] = r_req
        exp = sphere_set(shape, c, r)
        clipped = any(c[a] - r < 0 or c[a] + r > shape[a] - 1 for a in range(3))
        ok, m = call(out, "spherical_mask", lambda: cryomask.spherical_mask(list(shape), gaussian=s, gaussian_outwards=outwards, **kw))
        core = exp
    elif kind == "cylinder":
        r_req, h_req = case["radius"], case["height"]
        r = r_req if r_req is not None else min(shape[:2]) // 2
        h = h_req if h_req is not None else shape[2]
        if r_req is not None:
            kw["radius"] = r_req
        if h_req is not None:
            kw["height"] = h_req
        exp = cyl_set(shape, c, r, h // 2)
        clipped = c[2] - h // 2 < 0 or c[2] + h // 2 > shape[2] - 1 or any(c[a] - r < 0 or c[a] + r > shape[a] - 1 for a in range(2))
        if c[2] - h // 2 < 0 or c[2] + h // 2 > shape[2] - 1:
            out.label("cylinder_slab_clipped")
        ok, m = call(out, "cylindrical_mask", lambda: cryomask.cylindrical_mask(list(shape), gaussian=s, gaussian_outwards=outwards, **kw))
        core = exp
    elif kind == "ellipsoid":
        radii = case["radii"] if case["radii"] is not None else [n // 2 for n in shape]
        if case["radii"] is not None:
            kw["radii"] = list(case["radii"])
        exp, tie = ell_set(shape, c, radii)
        clipped = any(c[a] - radii[a] < 0 or c[a] + radii[a] > shape[a] - 1 for a in range(3))
        ok, m = call(out, "ellipsoid_mask", lambda: cryomask.ellipsoid_mask(list(shape), gaussian=s, gaussian_outwards=outwards, **kw))
        core = exp & ~tie
        if tie.any():
            out.label("ellipsoid_tie_voxels")
    elif kind == "s_shell":
        r_req = case["radius"]
        r = r_req if r_req is not None else min(shape) // 2
        t = case["thickness"]
        if r_req is not None:
            kw["radius"] = r_req
        exp = sphere_set(shape, c, r + t / 2) & ~sphere_set(shape, c, r - t / 2)
        clipped = any(c[a] - (r + t / 2) < 0 or c[a] + (r + t / 2) > shape[a] - 1 for a in range(3))
        ok, m = call(out, "spherical_shell_mask", lambda: cryomask.spherical_shell_mask(list(shape), t, gaussian=s, **kw))
    elif kind == "e_shell":
        radii, t = case["radii"], case["thickness"]
        ro = [int(r + t / 2) for r in radii]
        ri = [int(r - t / 2) for r in radii]
        eo, to = ell_set(shape, c, ro)
        ei, ti = ell_set(shape, c, ri)
        exp = eo & ~ei
        tie = to | ti
        clipped = any(c[a] - ro[a] < 0 or c[a] + ro[a] > shape[a] - 1 for a in range(3))
        ok, m = call(out, "ellipsoid_shell_mask", lambda: cryomask.ellipsoid_shell_mask(list(shape), t, radii=list(radii), gaussian=s, **kw))
    else:
        return run_name(case, out)

    out.nontrivial = (noncubic and offcentre) or clipped
    if clipped:
        out.label("clipped_by_box")
    if c_in is not None and list(c_in) == [0, 0, 0]:
        out.label("centre_at_origin_corner")
    if not ok:
        return
    # the same request again (and, in between, another one in the same box) must give the same mask: no state between calls
    if kind in ("sphere", "cylinder") and s == 0:
        fn2 = cryomask.spherical_mask if kind == "sphere" else cryomask.cylindrical_mask
        other_c = [min(shape[a] - 1, c[a] + 1 + a) for a in range(3)]
        call(out, f"{kind}_mask(other centre)", lambda: fn2(list(shape), center=other_c, radius=2))
        ok2, m_again = call(out, f"{kind}_mask(again)", lambda: fn2(list(shape), gaussian=s, gaussian_outwards=outwards, **kw))
        if ok2:
            out.check(np.array_equal(np.asarray(m_again), np.asarray(m)), f"{kind}:result_depends_on_earlier_calls", "")
    m = np.asarray(m)
    if not out.check(m.shape == shape, f"{kind}:shape", f"{m.shape} vs {shape}"):
        return
    if kind in ("sphere", "cylinder", "ellipsoid") and sum(shape) % 3 == 0:
        fn3 = {"sphere": cryomask.spherical_mask, "cylinder": cryomask.cylindrical_mask, "ellipsoid": cryomask.ellipsoid_mask}[kind]
        name = "mask.mrc" if sum(shape) % 2 else "mask.em"
        out.label("shape:output_file")
        ok3, m3 = call(out, f"{kind}_mask(output_name)", lambda: fn3(list(shape), gaussian=s, gaussian_outwards=outwards, output_name=name, **kw))
        if ok3:
            out.check(np.array_equal(np.asarray(m3), m), f"{kind}:result_changes_with_output_name", "")
            check_mask_file(out, name, m, kind)
    if s == 0:
        skip = tie if kind in ("ellipsoid", "e_shell") else None
        compare_binary(out, m, exp, kind, f"shape={shape} centre={c} params={ {k: v for k, v in case.items() if k in ('radius', 'height', 'radii', 'thickness')} }", skip)
    else:
        mf = m.astype(float)
        out.check(bool(np.all(np.isfinite(mf))) and mf.min() >= -1e-12 and mf.max() <= 1 + 1e-12, f"{kind}:soft_outside_0_1", lambda: f"{mf.min()} {mf.max()}")
        if kind in ("sphere", "cylinder", "ellipsoid") and outwards and core is not None and core.any():
            out.label("soft_outwards_core")
            lo = mf[core].min()
            sig_core = f"{kind}:soft_outwards_core_below_1"
            if kind == "ellipsoid" and lo < 1 - 1e-3:
                # recorded finding (known_findings.json): the tips of needle-like ellipsoids fall short by up to ~3e-3 because the
                # radii are enlarged by 5 sigma along the axes only; any other shape, or a larger shortfall, keeps the general signature
                rr = sorted(case["radii"] if case["radii"] is not None else [n_ // 2 for n_ in shape])
                worst = np.argwhere(core & (mf == lo))[0]
                k_long = int(np.argmax(case["radii"] if case["radii"] is not None else [n_ // 2 for n_ in shape]))
                at_tip = abs(int(worst[k_long]) - c[k_long]) >= rr[2] - 1
                if rr[0] <= 2 and rr[2] >= 5 * rr[0] and lo >= 1 - 5e-3 and at_tip:
                    sig_core = "ellipsoid:soft_outwards_core_below_1:needle_tip_short_by_less_than_5e-3"
            out.check(lo >= 1 - 1e-3, sig_core, lambda: f"min over requested core {lo} sigma={s} shape={shape} centre={c}")


def run_name(case, out):
    from cryocat import cryomask

    name = case["name"]
    parts = name.split("_")
    nums = [int("".join(ch for ch in p if ch.isdigit())) for p in parts if any(ch.isdigit() for ch in p)]
    size = case.get("explicit_size")
    out.label("name:" + ("_".join(p for p in parts if not any(ch.isdigit() for ch in p))))
    if size is None:
        size0 = 2 * max(nums) + 4
        size0 = math.ceil(size0 / 2) * 2
    else:
        size0 = size
    kw = {} if size is None else {"mask_size": size}
    if name.startswith("s_shell"):
        size0 = math.ceil((size0 + nums[1]) / 2) * 2
    # the statement promises the same SHAPES as the direct constructors; how large a box the generator picks when none
    # is given (or how it pads a shell's box) is its own business - so the box is taken from the result and the analytic
    # solid is placed at that box's centre
    ok, m = call(out, "generate_mask", lambda: cryomask.generate_mask(name, **kw))
    if not ok:
        return
    m = np.asarray(m)
    if not out.check(m.ndim == 3 and min(m.shape) >= 2, "generate_mask:not_a_3d_box", f"{m.shape}"):
        return
    if size is not None and not name.startswith("s_shell"):
        out.check(m.shape == (size,) * 3, "generate_mask:explicit_mask_size_not_used", f"{m.shape} vs {size}")
    out.label("name:default_box_as_today" if m.shape == (size0,) * 3 else "name:other_box")
    shape = tuple(int(v) for v in m.shape)
    c = default_center(shape)
    tie = None
    if name.startswith("sphere"):
        exp = sphere_set(shape, c, nums[0])
    elif name.startswith("cylinder"):
        exp = cyl_set(shape, c, nums[0], nums[1] // 2)
    elif name.startswith("s_shell"):
        exp = sphere_set(shape, c, nums[0] + nums[1] / 2) & ~sphere_set(shape, c, nums[0] - nums[1] / 2)
    elif name.startswith("ellipsoid"):
        exp, tie = ell_set(shape, c, nums[:3])
    else:
        t = nums[3]
        eo, to = ell_set(shape, c, [int(r + t / 2) for r in nums[:3]])
        ei, ti = ell_set(shape, c, [int(r - t / 2) for r in nums[:3]])
        exp, tie = eo & ~ei, to | ti
    out.nontrivial = size is not None
    compare_binary(out, m, exp, "generate_mask", f"{name} size={size}", tie)
    # the parser itself
    ok, ps = call(out, "parse_shape_string", lambda: cryomask.parse_shape_string(name))
    if ok:
        out.check(list(ps[1]) == nums, "parse_shape_string:numbers", f"{ps} vs {nums}")


def make_mask(spec, shape):
    rng = np.random.default_rng(spec["seed"])
    if spec["soft"]:
        a = rng.random(shape)
        a[rng.random(shape) < 0.2] = 0.0
        a[rng.random(shape) < 0.2] = 1.0
        return a.astype(spec["dtype"])
    bits = rng.random(shape) < spec["p"]
    return bits.astype(spec["dtype"])


def check_mask_file(out, path, m, sig):
    """a mask written on request is the returned mask in single precision, same axis order"""
    try:
        fl = (oracle.em_read if path.endswith(".em") else oracle.mrc_read)(path)
    except (ValueError, OSError, KeyError) as e:
        out.fail(f"{sig}:output_file_unreadable", repr(e))
        return
    if out.check(tuple(fl["dims"]) == tuple(np.asarray(m).shape), f"{sig}:output_file_dims", f"{fl['dims']} vs {np.asarray(m).shape}"):
        out.check(np.array_equal(fl["data"].astype(np.float32), np.asarray(m).astype(np.float32)), f"{sig}:output_file_does_not_hold_the_mask", "")


def run_algebra(case, out):
    from cryocat import cryomap, cryomask

    shape = tuple(case["shape"])
    masks = [make_mask(m, shape) for m in case["masks"]]
    keep = [m.copy() for m in masks]
    soft = any(m["soft"] for m in case["masks"])
    dts = {m["dtype"] for m in case["masks"]}
    op = case["op"]
    out.label(f"op:{op}", f"n:{len(masks)}", "soft" if soft else "binary", *(f"first:{case['masks'][0]['dtype']}",))
    out.nontrivial = len(dts) > 1 and len(masks) >= 2
    inputs = list(masks)
    if case["via_file"]:
        # first mask passed as a file path (float32 on disk), the documented mixed usage
        if len(masks) % 2 == 0 or shape[0] % 2:
            # the file name has a history: another mask of the same box was stored under it and used as an operand, then the
            # file was overwritten with the mask of this case (same size on disk)
            out.label("via_file:name_held_another_mask_before")
            cryomap.write((1.0 - np.clip(masks[0].astype(np.float32), 0, 1)).astype(np.float32), "m0.mrc")
            try:
                getattr(cryomask, op)(["m0.mrc"] + [m_.copy() for m_ in masks[1:]])
            except Exception:
                pass
        cryomap.write(masks[0].astype(np.float32), "m0.mrc")
        inputs[0] = "m0.mrc"
        out.label("via_file")
    fn = getattr(cryomask, op)
    n_inputs, ids_inputs = len(inputs), [id(x) for x in inputs]
    ok, r = call(out, op, lambda: fn(inputs))
    out.check(len(inputs) == n_inputs and [id(x) for x in inputs] == ids_inputs, f"{op}:input_list_modified", f"{len(inputs)} of {n_inputs} masks left in the caller's list")
    for a, b in zip(masks, keep):
        out.check(a.dtype == b.dtype and np.array_equal(a, b), f"{op}:input_modified", f"dtype {b.dtype}")
    if not ok:
        return
    r = np.asarray(r)
    if not out.check(r.shape == shape, f"{op}:shape", f"{r.shape} vs {shape}"):
        return
    rf = r.astype(float)
    out.check(bool(np.all(np.isfinite(rf))) and rf.min() >= 0 and rf.max() <= 1, f"{op}:result_outside_0_1", lambda: f"{rf.min()} {rf.max()}")
    # what a call returned stays what it was: later calls on other masks of the same box must not reach back into it
    r_keep = r.copy()
    others = [make_mask(dict(m_, seed=m_["seed"] + 101), shape) for m_ in case["masks"][:2]] + [np.ones(shape)]
    for op2 in ("union", "intersection", "difference", op):
        call(out, f"{op2}(other masks)", lambda: getattr(cryomask, op2)([o_.copy() for o_ in others]))
    out.check(np.array_equal(np.asarray(r), r_keep), f"{op}:earlier_result_changed_by_later_calls", "")
    if sum(shape) % 3 == 0:
        out.label("algebra:output_file")
        ok3, r3 = call(out, f"{op}(output_name)", lambda: fn(list(inputs), output_name="res.mrc"))
        if ok3:
            out.check(np.array_equal(np.asarray(r3), r), f"{op}:result_changes_with_output_name", "")
            check_mask_file(out, "res.mrc", r, op)
    if not soft:
        B = [m.astype(bool) for m in keep]
        if op == "union":
            exp = np.logical_or.reduce(B)
        elif op == "intersection":
            exp = np.logical_and.reduce(B)
        elif op == "subtraction":
            exp = B[0] & ~np.logical_or.reduce(B[1:]) if len(B) > 1 else B[0]
        else:
            exp = np.logical_or.reduce(B) & ~np.logical_and.reduce(B)
            if len(B) == 2:
                assert np.array_equal(exp, B[0] ^ B[1])
        compare_binary(out, r, exp, op, f"{len(B)} masks dtypes {[m['dtype'] for m in case['masks']]}")


# rejected calls that run before every case (vlib/faults.py): nothing they leave behind - module state, library options,
# stray files - may make the valid calls of the case violate the statement
from vlib import faults as _faults  # noqa: E402

fault_calls = _faults.for_property(ID)
