"""C16 - dose filtering applies the Grant-Grigorieff exposure attenuation."""
import numpy as np
from hypothesis import strategies as st

from vlib import oracle
from vlib.runner import Outcome, call

ID = "C16"
RULE = (
    "Stacks of 1..10 images with independent even/odd sizes 4..64, float32/float64, pixel size 0.5..10 A, per-image "
    "doses 0..300 e/A^2 in any order incl. exactly 0; content PRNG noise or a pure plane wave at a drawn integer "
    "frequency; array input in x,y,n or n,y,x order or MRC file; dose as list / array / text file. Oracle per image i: "
    "fft2(out_i)[ky,kx] == g_i(f) fft2(in_i)[ky,kx] with f = sqrt((kx/(W px))^2 + (ky/(H px))^2) on an integer "
    "frequency grid, g = exp(-dose_i / (2 (0.245 f^-1.665 + 2.81))), g(0) = 1; metamorphic: zero dose == identity, mean "
    "preserved, linearity, |gain| <= 1 and decreasing in dose, filter(d1) then filter(d2) == filter(d1+d2), image i "
    "paired with dose i, repeated identical calls agree. Non-trivial: non-square images with >= 2 different non-zero "
    "doses."
)
ASSUMPTIONS = [
    "tolerance 1e-9 relative to max|F| for float64 stacks and 2e-5 for float32 stacks (result stored in the stack's dtype)",
    "integer-typed stacks are outside the property's domain (the result is cast back to the stack dtype)",
]
BUDGET = {"quick": {"examples": 2500, "seconds": 70}, "thorough": {"examples": 8000, "seconds": 480}}

dim = st.one_of(st.integers(4, 64), st.integers(4, 16), st.sampled_from([5, 7, 8, 9, 33]))
dose_s = st.one_of(st.floats(0, 300, allow_nan=False), st.just(0.0), st.integers(1, 120).map(float))


@st.composite
def strategy_case(draw):
    n = draw(st.integers(1, 10))
    w, h = draw(dim), draw(dim)
    c = {"n": n, "w": w, "h": h, "dtype": draw(st.sampled_from(["float64", "float64", "float32"])), "seed": draw(st.integers(0, 2**31 - 1)),
         "px": draw(st.one_of(st.floats(0.5, 10, allow_nan=False), st.sampled_from([1.0, 2.0]))),
         "doses": draw(st.lists(dose_s, min_size=n, max_size=n)),
         "doses2": draw(st.lists(dose_s, min_size=n, max_size=n)),
         "content": draw(st.sampled_from(["noise", "noise", "plane"])),
         "in_order": draw(st.sampled_from(["xyz", "zyx"])), "out_order": draw(st.sampled_from(["xyz", "zyx"])),
         "input": draw(st.sampled_from(["array", "array", "array", "file"])),
         "dose_as": draw(st.sampled_from(["list", "array", "file"])),
         "ab": [draw(st.floats(-3, 3, allow_nan=False)), draw(st.floats(-3, 3, allow_nan=False))]}
    if c["content"] == "plane":
        c["k"] = [draw(st.integers(-(w // 2), (w - 1) // 2)), draw(st.integers(-(h // 2), (h - 1) // 2))]
        c["phase"] = draw(st.floats(0, 6.28, allow_nan=False))
    return c


def strategy(tier):
    return strategy_case()


def corner_cases(tier):
    yield {"n": 3, "w": 10, "h": 7, "dtype": "float64", "seed": 1, "px": 2.5, "doses": [0.0, 30.0, 12.0], "doses2": [5.0, 0.0, 7.0],
           "content": "noise", "in_order": "xyz", "out_order": "zyx", "input": "array", "dose_as": "file", "ab": [1.5, -2.0]}
    yield {"n": 2, "w": 9, "h": 9, "dtype": "float32", "seed": 2, "px": 1.0, "doses": [100.0, 3.0], "doses2": [1.0, 1.0],
           "content": "plane", "k": [0, 3], "phase": 0.4, "in_order": "zyx", "out_order": "xyz", "input": "file", "dose_as": "list", "ab": [1, 1]}


def images(c, seed_off=0):
    rng = np.random.default_rng(c["seed"] + seed_off)
    n, h, w = c["n"], c["h"], c["w"]
    if c["content"] == "plane" and seed_off == 0:
        yy, xx = np.meshgrid(np.arange(h), np.arange(w), indexing="ij")
        base = np.cos(2 * np.pi * (c["k"][0] * xx / w + c["k"][1] * yy / h) + c["phase"])
        a = np.stack([base * (t + 1) + 0.25 * t for t in range(n)])
    else:
        a = rng.normal(0, 5, size=(n, h, w)) + rng.normal(0, 3, size=(n, 1, 1))
    return a.astype(c["dtype"])


def gain(h, w, px, dose):
    ky = (((np.arange(h) + h // 2) % h) - h // 2)[:, None]
    kx = (((np.arange(w) + w // 2) % w) - w // 2)[None, :]
    f = np.sqrt((kx / (w * px)) ** 2 + (ky / (h * px)) ** 2)
    with np.errstate(divide="ignore"):
        crit = 0.245 * np.power(f, -1.665) + 2.81
    g = np.exp(-dose / (2 * crit))
    g[0, 0] = 1.0
    return g


def run(case):
    from cryocat import tiltstack

    c = case
    out = Outcome()
    I = images(c)
    n, h, w = I.shape
    px = float(c["px"])
    doses = [float(d) for d in c["doses"]]
    tol = 1e-9 if c["dtype"] == "float64" else 2e-5
    out.label(c["dtype"], f"content:{c['content']}", f"in:{c['input']}", f"dose:{c['dose_as']}", "square" if w == h else "nonsquare",
              "odd" if (w % 2 or h % 2) else "even")
    nz = sorted({d for d in doses if d > 0})
    out.nontrivial = w != h and len(nz) >= 2

    def as_input(imgs, name="in.mrc"):
        if c["input"] == "file":
            oracle.mrc_write(name, np.ascontiguousarray(imgs.astype(np.float32).transpose(2, 1, 0)))
            return name
        if c["in_order"] == "xyz":
            # both memory layouts a caller may hold: a C-ordered x,y,z array, or the transposed view of a z,y,x array
            return np.ascontiguousarray(imgs.transpose(2, 1, 0)) if int(c.get("seed", 0)) % 2 else imgs.copy().transpose(2, 1, 0)
        return imgs.copy()

    dose_arrays = {}

    def dose_input(ds, name="dose.txt"):
        if c["dose_as"] == "list":
            return list(ds)
        if c["dose_as"] == "array":
            # one array object per dose vector, handed to every call that uses this vector (as a caller would)
            key = tuple(ds)
            if key not in dose_arrays:
                dose_arrays[key] = np.array(ds, dtype=float)
            return dose_arrays[key]
        with open(name, "w") as f:
            f.write("".join(f"{d!r}\n" for d in ds))
        return name

    def filt(imgs, ds, label="dose_filter", name="in.mrc"):
        inp = as_input(imgs, name)
        inp0 = inp.copy() if isinstance(inp, np.ndarray) else None
        ok, r = call(out, label, lambda: tiltstack.dose_filter(inp, px, dose_input(ds), input_order=c["in_order"], output_order=c["out_order"]))
        if not ok:
            return None
        if inp0 is not None:
            out.label("array_input:" + ("c_ordered" if inp.flags.c_contiguous else "other_layout"))
            out.check(np.array_equal(inp, inp0), "input_stack_modified", label)
        r = np.asarray(r)
        r = r.transpose(2, 1, 0) if c["out_order"] == "xyz" else r
        if not out.check(r.shape == imgs.shape, "shape", f"{r.shape} vs {imgs.shape}"):
            return None
        return r

    base = I.astype(np.float32).astype(I.dtype) if c["input"] == "file" else I  # what the function actually receives
    if c["input"] == "file":
        tol = 2e-5
    # text files are read as float32: the oracle uses the dose the function receives
    eff = [float(np.float32(d)) for d in doses] if c["dose_as"] == "file" else doses
    R = filt(I, doses)
    if R is None:
        return out
    if not out.check(bool(np.all(np.isfinite(R))), "not_finite", ""):
        return out
    for i in range(n):
        Fin = np.fft.fft2(base[i].astype(np.float64))
        Fout = np.fft.fft2(R[i].astype(np.float64))
        g = gain(h, w, px, eff[i])
        scale = max(np.abs(Fin).max(), 1e-30)
        err = np.abs(Fout - g * Fin)
        if err.max() > tol * scale:
            j = np.unravel_index(np.argmax(err), err.shape)
            ky = ((j[0] + h // 2) % h) - h // 2
            kx = ((j[1] + w // 2) % w) - w // 2
            # classify the root cause for bucketing
            sig = "gain:mismatch"
            if abs(Fout[0, 0] - Fin[0, 0]) > tol * scale:
                sig = "gain:zero_frequency_attenuated"
            else:
                others = [k for k in range(n) if k != i and np.abs(Fout - gain(h, w, px, eff[k]) * Fin).max() <= tol * scale]
                if others:
                    sig = "gain:image_paired_with_wrong_dose"
            out.fail(sig, f"image {i} dose {eff[i]} px {px} size {w}x{h}: at (kx,ky)=({kx},{ky}) got {Fout[j] / Fin[j] if abs(Fin[j]) > 1e-12 else Fout[j]} expected {g[j]}")
            break
        out.check(abs(R[i].astype(np.float64).mean() - base[i].astype(np.float64).mean()) <= tol * (1 + np.abs(base[i]).max()), "mean_not_preserved", f"image {i}")
        if eff[i] == 0:
            out.check(np.abs(R[i].astype(np.float64) - base[i]).max() <= tol * (1 + np.abs(base[i]).max()), "zero_dose_not_identity", f"image {i}")
        # power never increases
        out.check(bool(np.all(np.abs(Fout) <= np.abs(Fin) * (1 + 1e-6) + tol * scale)), "power_increased", f"image {i}")
    if out.violations:
        return out
    # the written file holds the filtered stack (float32 on disk)
    inp_w = as_input(I, "in_w.mrc")
    okw, rw = call(out, "dose_filter(output_file)", lambda: tiltstack.dose_filter(inp_w, px, dose_input(doses), output_file="filtered.mrc", input_order=c["in_order"], output_order=c["out_order"]))
    if okw:
        try:
            fl = oracle.mrc_read("filtered.mrc")
            imgs_f = fl["data"].transpose(2, 1, 0)
            if out.check(imgs_f.shape == R.shape, "output_file:dims", f"{fl['dims']}"):
                out.check(np.abs(imgs_f.astype(np.float64) - R.astype(np.float64)).max() <= 2e-5 * (1 + np.abs(R).max()), "output_file:does_not_hold_the_filtered_stack", "")
        except Exception as e:
            out.fail("output_file:unreadable_or_missing", repr(e))
    if c["dose_as"] == "array":
        out.check(np.array_equal(dose_arrays[tuple(doses)], np.array(doses, dtype=float)), "dose_array_argument_modified", "")
    # a call with another pixel size on the same image shape in between, then the identical call again (no state between calls)
    px_keep = px
    px = px * 1.7
    _ = filt(I, doses, label="dose_filter(other pixel size)")
    px = px_keep
    R_again = filt(I, doses)
    if R_again is not None:
        out.check(np.array_equal(R_again, R), "second_identical_call_differs", f"max diff {np.abs(R_again - R).max()}")
    # composition: filter(d1) then filter(d2) == filter(d1+d2)   (array route in float64 only: no float32 file narrowing in between)
    d2 = [float(d) for d in c["doses2"]]
    if c["input"] == "array" and c["dtype"] == "float64" and c["dose_as"] != "file":
        R2 = filt(R, d2)
        R12 = filt(I, [a + b for a, b in zip(doses, d2)])
        if R2 is not None and R12 is not None:
            out.label("composition")
            out.check(np.abs(R2 - R12).max() <= 1e-9 * (1 + np.abs(I).max()), "composition_d1_then_d2_differs_from_sum", f"{np.abs(R2 - R12).max()}")
        # more dose attenuates more
        Rm = filt(I, [a + b + 1.0 for a, b in zip(doses, d2)])
        if Rm is not None and R12 is not None:
            A = np.abs(np.fft.fft2(Rm, axes=(1, 2)))
            B = np.abs(np.fft.fft2(R12, axes=(1, 2)))
            out.check(bool(np.all(A <= B * (1 + 1e-9) + 1e-9 * B.max())), "more_dose_attenuates_less", "")
        # linearity
        J = images(c, 1)
        a, b = c["ab"]
        RJ = filt(J, doses)
        RL = filt((a * I + b * J).astype(I.dtype), doses)
        if RJ is not None and RL is not None:
            out.label("linearity")
            out.check(np.abs(RL - (a * R + b * RJ)).max() <= 1e-9 * (1 + abs(a) + abs(b)) * (1 + np.abs(I).max() + np.abs(J).max()), "not_linear", "")
    # strong attenuation, measured relatively: a zero-mean plane wave at a high frequency, small pixels, the largest dose -
    # the surviving amplitude (1e-10 .. 1e-40 of the input) is still far above the noise of the transforms
    if not out.violations and c["seed"] % 3 == 0:
        hh, ww = h, w
        kx_, ky_ = max(1, ww // 2 - 1), max(1, hh // 3)
        yy, xx = np.meshgrid(np.arange(hh), np.arange(ww), indexing="ij")
        wave = np.cos(2 * np.pi * (kx_ * xx / ww + ky_ * yy / hh) + 0.3)
        px_s, d_s = [0.5, 0.8, 1.2][c["seed"] % 9 // 3], [300.0, 250.0, 180.0][c["seed"] % 27 // 9]
        g_s = gain(hh, ww, px_s, d_s)[ky_, kx_]
        ok_s, r_s = call(out, "dose_filter(strong attenuation)", lambda: tiltstack.dose_filter(wave[None].copy(), px_s, [d_s], input_order="zyx", output_order="zyx"))
        if ok_s and np.asarray(r_s).shape == (1, hh, ww) and g_s > 1e-250:
            ratio = np.fft.fft2(np.asarray(r_s, dtype=np.float64)[0])[ky_, kx_] / np.fft.fft2(wave)[ky_, kx_]
            out.label("strong_attenuation_measured")
            out.check(abs(ratio - g_s) <= 1e-6 * g_s, "gain:strong_attenuation_not_the_formula_relatively", f"px {px_s} dose {d_s} size {ww}x{hh} at ({kx_},{ky_}): got {ratio!r} expected {g_s!r}")
    return out


# rejected calls that run before every case (vlib/faults.py): nothing they leave behind - module state, library options,
# stray files - may make the valid calls of the case violate the statement
from vlib import faults as _faults  # noqa: E402

fault_calls = _faults.for_property(ID)
