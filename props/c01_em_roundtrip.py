"""C01 - EM particle-list files round-trip losslessly for any table column order."""
import math
import os

import numpy as np
import pandas as pd
from hypothesis import strategies as st

from vlib import gen, oracle
from vlib.runner import Outcome, call

ID = "C01"
RULE = (
    "Hypothesis-generated tables with exactly the 20 motl fields in a drawn column permutation (identity <= ~10%), "
    "N in 1..12 drawn element-wise plus optional PRNG bulk rows up to 300, DataFrame row labels default / reversed / offset / strided / rotated, values: floats in float32 range with "
    "magnitudes 1e-30..1e30, integers > 2^24, exact float32 values, NaN holes; write path in {Motl.write_out(p), "
    "Motl.write_out(p,'emmotl'), EmMotl(df).write_out, Motl.load(df).write_out}; read path in {Motl.load, EmMotl}. "
    "Oracle: own EM byte parser (type float32, dims 20 x N x 1, file length 512+80N, cell(i,j)==float32(df[name_j][i]), NaN->0) "
    "and re-loaded table compared by column *name*. Non-trivial: permutation != identity, N >= 2 and some row has two "
    "different field values (a scramble is observable). Distinct = distinct case hash."
)
ASSUMPTIONS = [
    "values beyond float32 range are outside the property's domain (generator stays within +-3e38)",
    "float64 -> float32 narrowing is round-to-nearest-even (numpy astype), used as the oracle's 'single-precision rounding'",
]
BUDGET = {"quick": {"examples": 2500, "seconds": 60}, "thorough": {"examples": 4000, "seconds": 420}}

value = st.one_of(
    st.floats(-1e4, 1e4, allow_nan=False, width=64),
    st.integers(-1000, 1000).map(float),
    st.floats(-3e38, 3e38, allow_nan=False, allow_infinity=False, width=64),
    st.tuples(st.floats(1, 10, allow_nan=False), st.integers(-30, 30), st.sampled_from([1, -1])).map(
        lambda t: t[2] * t[0] * 10.0 ** t[1]
    ),
    st.integers(2**24, 2**31).map(float),
    st.floats(allow_nan=False, allow_infinity=False, width=32).map(float),
    st.just(float("nan")),
    st.just(0.0),
    st.sampled_from([3.4028234663852886e38, -3.4028234663852886e38, 3.402e38, -3.4019e38, 1.1754943508222875e-38, 1e-45, -0.0, 16777217.0]),
)
FIELDS = {c: value for c in oracle.MOTL_COLUMNS if c != "subtomo_id"}
FIELDS.update({"phi": value, "psi": value, "theta": value})


def strategy(tier):
    return st.fixed_dictionaries(
        {
            "table": gen.table(1, 12, fields=FIELDS, permute=True, bulk_max=300, bulk_large=(900, 2600),
                               id_strategy=st.one_of(st.integers(1, 5000), st.integers(2**24, 2**26))),
            "wpath": st.sampled_from(["motl_default", "motl_emmotl", "emmotl_class", "load_then_write", "emmotl_class_with_header", "copy_edited_before_write"]),
            "rpath": st.sampled_from(["load", "emmotl_class"]),
        }
    )


def _bulk(rng, n, first_id):
    a = rng.normal(0, 1, (n, 20)) * 10.0 ** rng.integers(-3, 6, (n, 20))
    a[rng.random((n, 20)) < 0.05] = np.nan
    a[:, gen.COL_IDX["subtomo_id"]] = first_id + 1 + np.arange(n)
    a[rng.random(n) < 0.03] = np.nan  # particles with every field missing are particles too: they read back as rows of zeros
    return a


def corner_cases(tier):
    cols = oracle.MOTL_COLUMNS
    base = [[float(i * 20 + j + 1) for j in range(20)] for i in range(3)]
    for order in (list(reversed(cols)), cols[1:] + cols[:1], sorted(cols)):
        for w in ("motl_default", "emmotl_class"):
            yield {"table": {"cols": order, "rows": base, "bulk": None}, "wpath": w, "rpath": "load"}
    yield from _more_corners()


def _more_corners():
    cols = oracle.MOTL_COLUMNS
    nan = float("nan")
    rows = [[float(i * 20 + j + 1) for j in range(20)] for i in range(4)]
    rows[1] = [nan] * 20
    yield {"table": {"cols": cols, "rows": rows, "bulk": None}, "wpath": "emmotl_class", "rpath": "load"}
    yield {"table": {"cols": list(reversed(cols)), "rows": [[nan] * 20], "bulk": None}, "wpath": "motl_default", "rpath": "load"}
    yield {"table": {"cols": cols, "rows": rows[:1], "bulk": {"seed": 5, "n": 1003}}, "wpath": "emmotl_class", "rpath": "emmotl_class"}


def run(case):
    from cryocat import cryomotl

    out = Outcome()
    t = case["table"]
    df = gen.table_df(t, _bulk)
    a = gen.table_array(t, _bulk)  # canonical order
    n = a.shape[0]
    expect = np.nan_to_num(a, nan=0.0).astype(np.float32) if True else None
    # NaN -> 0; +-inf cannot occur (domain)
    expect = np.where(np.isnan(a), 0.0, a).astype(np.float32)
    ident = gen.is_identity_perm(t)
    out.label("perm_identity" if ident else "perm_other", f"w:{case['wpath']}", f"r:{case['rpath']}")
    if np.isnan(a).any():
        out.label("has_nan")
    if t.get("bulk"):
        out.label("bulk")
    out.label(f"index:{t.get('index', 'default')}")
    observable = any(len(set(r.tolist())) > 1 for r in expect)
    out.nontrivial = (not ident) and n >= 2 and observable

    path = "list.em"
    w = case["wpath"]
    if w == "motl_default":
        ok, _ = call(out, "Motl.write_out", lambda: cryomotl.Motl(df.copy()).write_out(path))
    elif w == "motl_emmotl":
        ok, _ = call(out, "Motl.write_out", lambda: cryomotl.Motl(df.copy()).write_out(path, "emmotl"))
    elif w == "emmotl_class":
        ok, _ = call(out, "EmMotl.write_out", lambda: cryomotl.EmMotl(df.copy()).write_out(path))
    elif w == "emmotl_class_with_header":
        # the list is written with the header object of another EM file (a list with another particle count), as happens
        # when a subset or a merged list is saved with the source file's header
        other = np.zeros((n + 3, 20))
        other[:, 3] = np.arange(1, n + 4)
        import pandas as _pd
        ok, _ = call(out, "EmMotl.write_out", lambda: cryomotl.EmMotl(_pd.DataFrame(other, columns=oracle.MOTL_COLUMNS)).write_out("other.em"))
        if not ok:
            return out
        ok, src = call(out, "EmMotl.read_in", lambda: cryomotl.EmMotl.read_in("other.em"))
        if not ok:
            return out
        hdr = src[1]
        ok, _ = call(out, "EmMotl(header).write_out", lambda: cryomotl.EmMotl(df.copy(), header=hdr).write_out(path))
    elif w == "copy_edited_before_write":
        # two live lists: a second list is loaded from the first and edited in place before the first is written
        ok, first = call(out, "EmMotl", lambda: cryomotl.EmMotl(df.copy()))
        if not ok:
            return out
        ok, second = call(out, "Motl.load(list)", lambda: cryomotl.Motl.load(first))
        if not ok:
            return out
        _faults.scribble(second)
        ok, _ = call(out, "EmMotl.write_out", lambda: first.write_out(path))
    else:
        ok, _ = call(out, "Motl.load.write_out", lambda: cryomotl.Motl.load(df.copy()).write_out(path))
    if not ok:
        return out
    if not os.path.isfile(path):
        out.fail("write:no_file", "no file written")
        return out

    # (1) bytes
    try:
        em = oracle.em_read(path)
    except Exception as e:  # an unreadable file is a property violation (not a valid EM volume)
        out.fail("bytes:not_valid_em", repr(e))
        return out
    out.check(em["dtype"] == np.float32, "bytes:not_float32", em["dtype"])
    out.check(em["dims"] == (20, n, 1), "bytes:dims", f"{em['dims']} expected (20,{n},1)")
    out.check(em["nbytes"] == 512 + 80 * n, "bytes:length", em["nbytes"])
    if em["dims"] == (20, n, 1) and em["dtype"] == np.float32:
        cells = em["data"][:, :, 0].T  # [row, field]
        bad = np.argwhere(~(cells == expect))
        if len(bad):
            i, j = bad[0]
            # classify: are the file's row values a permutation of the expected ones (scramble) or changed values?
            scr = sorted(cells[i].tolist()) == sorted(expect[i].tolist())
            out.fail("bytes:field_order_scrambled" if scr else "bytes:value_changed",
                     f"row {i} field {oracle.MOTL_COLUMNS[j]}: file {cells[i, j]!r} expected {expect[i, j]!r}")

    # (2) re-load
    if case["rpath"] == "load":
        ok, m = call(out, "Motl.load", lambda: cryomotl.Motl.load(path))
    else:
        ok, m = call(out, "EmMotl", lambda: cryomotl.EmMotl(path))
    if not ok:
        return out
    df2 = m.df
    if not out.check(sorted(df2.columns) == sorted(oracle.MOTL_COLUMNS) and len(df2.columns) == 20, "reload:columns", list(df2.columns)):
        return out
    if not out.check(len(df2) == n, "reload:row_count", f"{len(df2)} != {n}"):
        return out
    # loading is repeatable: modifying the loaded list in place must not leak into a second load of the same file
    call(out, "scale_coordinates", lambda: m.scale_coordinates(3.0))
    try:
        m.df["class"] = 77.0
    except Exception:
        pass
    ok, m2 = call(out, "Motl.load(second)", lambda: cryomotl.Motl.load(path))
    if ok:
        g2 = m2.df[oracle.MOTL_COLUMNS].to_numpy(dtype=float) if sorted(m2.df.columns) == sorted(oracle.MOTL_COLUMNS) else None
        out.check(g2 is not None and g2.shape == expect.shape and np.array_equal(g2, expect.astype(float)), "reload:second_load_differs_after_modifying_the_first", "")
    df2 = (cryomotl.Motl.load(path) if False else m2).df if ok else df2
    for j, c in enumerate(oracle.MOTL_COLUMNS):
        got = df2[c].to_numpy(dtype=float)
        exp = expect[:, j].astype(float)
        if not np.array_equal(got, exp):
            i = int(np.argwhere(got != exp)[0][0])
            scr = sorted(df2.iloc[i][oracle.MOTL_COLUMNS].tolist()) == sorted(expect[i].astype(float).tolist())
            out.fail("reload:field_order_scrambled" if scr else "reload:value_changed",
                     f"row {i} field {c}: got {got[i]!r} expected {exp[i]!r}")
            break
    if out.violations:
        return out
    # one list object over a short history: written, changed in place, written again - each file holds the list as it
    # was at that moment (whatever form the object was built through, whatever its row labels have become)
    form = ["motl", "emmotl", "emmotl_copy"][(n + len(t["cols"][0])) % 3]
    out.label(f"history:{form}")
    build = {"motl": lambda: cryomotl.Motl(df.copy()), "emmotl": lambda: cryomotl.EmMotl(df.copy()),
             "emmotl_copy": lambda: cryomotl.EmMotl(cryomotl.EmMotl(df.copy()))}[form]
    ok, mo = call(out, f"build:{form}", build)
    if not ok:
        return out
    ok, _ = call(out, "write_out(first)", lambda: mo.write_out("h1.em"))
    if not ok:
        return out
    model = pd.DataFrame(np.where(np.isnan(a), np.nan, a), columns=oracle.MOTL_COLUMNS)
    bad = oracle.em_motl_mismatch("h1.em", model)
    if not out.check(bad is None, f"history:first_file_{bad}", form):
        return out
    step = (n + int(abs(expect[0, 7])) % 7) % 3
    if step == 0:      # a field overwritten in the existing table
        mo.df.loc[:, "geom1"] = 0.25
        model["geom1"] = 0.25
    elif step == 1:    # the documented in-place operation
        call(out, "scale_coordinates", lambda: mo.scale_coordinates(0.5))
        for c_ in ("x", "y", "z", "shift_x", "shift_y", "shift_z"):
            model[c_] = model[c_] * 0.5
    else:              # rows reversed: the table keeps its (now descending) row labels
        mo.df = mo.df.iloc[::-1]
        model = model.iloc[::-1].reset_index(drop=True)
    out.label(f"history_step:{step}")
    second = "h1.em" if (n + step) % 2 == 0 else "h2.em"  # saving again under the same name replaces the file
    ok, _ = call(out, "write_out(second)", lambda: mo.write_out(second))
    if ok:
        bad = oracle.em_motl_mismatch(second, model)
        out.check(bad is None, f"history:second_file_does_not_hold_the_changed_list:{bad}", f"{form} step {step}")
    return out


# rejected calls that run before every case (vlib/faults.py): nothing they leave behind - module state, library options,
# stray files - may make the valid calls of the case violate the statement
from vlib import faults as _faults  # noqa: E402

fault_calls = _faults.for_property(ID)
