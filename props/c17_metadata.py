"""C17 - tilt-series metadata: mdoc round trip, loaders and wedge lists are consistent."""
import math
import os
import re

import numpy as np
from hypothesis import strategies as st

from vlib import oracle
from vlib.runner import Outcome, call

ID = "C17"
RULE = (
    "Three generated families. (mdoc) texts from a grammar: header 'key = value' lines, '[T = ...]' titles, 1..80 "
    "'[ZValue = n]' sections with a common key set incl. TiltAngle (distinct, any order, negative), ExposureDose, "
    "optional PriorRecordDose, SubFramePath with backslashes, DateTime; values: ints, decimals with 1..8 fractional "
    "digits incl. magnitudes < 1e-4, negatives, multi-token text; then optional sort by tilt, removal of a drawn subset "
    "(positions among the kept images, possibly in two rounds; Mdoc methods or the module-level helpers), write, re-read. "
    "Oracle: read(text) equals the generated instance cell by cell; read(write(read(text))) has the same titles, header "
    "and table (numbers numerically and still numbers, text verbatim); sorting only permutes rows into ascending "
    "TiltAngle; removal flags exactly the addressed kept images; the written file holds exactly the kept sections in "
    "table order. (loaders) tilt/dose files with one value per line, mdoc doses, gctf STAR and ctffind4 text defocus files "
    "(1..80 rows, comment lines on top): angles ascending, doses as in the file, mdoc dose = prior + exposure in the "
    "requested order, defocus U,V x 1e-4, mean (U+V)/2, astigmatism and phase shift as in the file. (wedge) 1..5 "
    "tomograms with own tilt counts, dimensions (1x3 / Nx4 array, DataFrame or text file), z-shifts (scalar / Nx2), "
    "optional defocus and dose files: one row per tilt per tomogram carrying that tomogram's number, dimensions, z-shift, "
    "pixel size and microscope constants with the i-th tilt/defocus/exposure; written STAR block data_stopgap_wedgelist "
    "with un-numbered labels; EM wedge list rows (t, min tilt, max tilt) as float32 in memory, in the EM file and via "
    "wedge_list_sg_to_em. Non-trivial: (mdoc) removals and unsorted tilts; (wedge) >= 2 tomograms with different tilt "
    "counts and dimensions; (loaders) >= 2 rows."
)
ASSUMPTIONS = [
    "mdoc values contain no '=' (the reader splits lines at '='); tilt angles within one mdoc are distinct (sort order of ties is unspecified)",
    "tilt files given to the wedge-list functions list the tilts in ascending order (the i-th tilt is paired with the i-th defocus/dose line)",
    "values read from text files through the float32 loaders are compared with float32 tolerance (1e-6 relative)",
    "the wedge_list console script needs numpydoc (not installed); the functions it wraps are driven directly",
]
BUDGET = {"quick": {"examples": 1600, "seconds": 85}, "thorough": {"examples": 5000, "seconds": 540}}

dec = st.tuples(st.integers(0, 10**6), st.integers(1, 8)).map(lambda t: ("%.*f" % (t[1], t[0] / 10 ** min(t[1], 6))))
small_dec = st.tuples(st.integers(1, 999), st.integers(5, 9)).map(lambda t: "%.*f" % (t[1], t[0] / 10 ** t[1]))  # 0.00005 ... below 1e-4
big_dec = st.integers(10**16, 10**18).map(lambda v: "%d.5" % v)
text_val = st.sampled_from(["21-Jun-22  14:05:33", "X:\\frames\\ts_001_0001_-12.0.tif", "4096 4096", "-3.5", "-12.25 33.1", "abc", "1 2 3", "true", "NaN", "1e-05", "0.5e3", "+7"])
value = st.one_of(st.integers(0, 10**6).map(str), dec, dec, small_dec, big_dec, text_val)


@st.composite
def mdoc_case(draw):
    n = draw(st.one_of(st.integers(1, 12), st.integers(1, 80)))
    tilts = draw(st.lists(st.integers(-700, 700), min_size=n, max_size=n, unique=True))
    keys = draw(st.lists(st.sampled_from(["StagePosition", "Magnification", "Intensity", "SpotSize", "Defocus", "TargetDefocus", "Binning", "CameraIndex",
                                          "DividedBy2", "MinMaxMean", "PixelSpacing", "RotationAngle", "ExposureTime", "NumSubFrames", "FrameDosesAndNumber"]),
                         min_size=0, max_size=6, unique=True))
    prior = draw(st.booleans())
    sections = []
    for i in range(n):
        sec = {"TiltAngle": "%.1f" % (tilts[i] / 10.0) if draw(st.integers(0, 5)) else "%.4f" % (tilts[i] / 10.0 + 0.0123)}
        for k in keys:
            sec[k] = draw(value)
        sec["ExposureDose"] = draw(st.one_of(dec, st.sampled_from(["3.0", "2.85", "0"])))
        if prior:
            sec["PriorRecordDose"] = draw(st.one_of(dec, st.sampled_from(["0", "12.5"])))
        sec["SubFramePath"] = "X:\\data\\frames\\ts_%03d_%04d.tif" % (draw(st.integers(1, 50)), i)
        sec["DateTime"] = "%02d-Jun-22  %02d:%02d:%02d" % (draw(st.integers(1, 28)), draw(st.integers(0, 23)), draw(st.integers(0, 59)), i % 60)
        sections.append(sec)
    header = {"PixelSpacing": draw(st.one_of(dec, small_dec)), "Voltage": "300", "ImageFile": "ts_001.mrc", "ImageSize": "4096 4096", "DataMode": "1"}
    for k in draw(st.lists(st.sampled_from(["Intensity", "Version", "Comment", "Scale"]), max_size=3, unique=True)):
        header[k] = draw(value)
    titles = draw(st.lists(st.sampled_from(["T = SerialEM: Digitized on FEI Krios D3593 21-Jun-22", "T = Tilt axis angle = 85.3, binning = 1  spot = 8  camera = 0",
                                            "T = note with spaces"]), max_size=3, unique=True))
    zvals = list(range(n))
    if draw(st.integers(0, 3)) == 0:
        zvals = draw(st.permutations(zvals))
    ops = draw(st.lists(st.one_of(
        st.fixed_dictionaries({"op": st.just("sort"), "reset_z": st.booleans()}),
        st.fixed_dictionaries({"op": st.just("remove"), "picks": st.lists(st.integers(0, 200), min_size=1, max_size=5), "from1": st.booleans()}),
    ), max_size=4))
    return {"kind": "mdoc", "header": header, "titles": titles, "sections": sections, "zvalues": list(zvals), "ops": ops,
            "blank_lines": draw(st.booleans()), "via_helpers": draw(st.integers(0, 3)) == 0, "trailing_nl": draw(st.booleans()),
            "key_order": draw(st.sampled_from(["same", "same", "varies"]))}


@st.composite
def loaders_case(draw):
    n = draw(st.one_of(st.integers(1, 12), st.integers(1, 80)))
    return {"kind": "loaders", "n": n, "seed": draw(st.integers(0, 2**31 - 1)), "which": draw(st.sampled_from(["tlt", "dose", "mdoc_dose", "gctf", "ctffind4"])),
            "permute": draw(st.booleans()), "phase": draw(st.booleans()), "comments": draw(st.integers(0, 6)), "sort_mdoc": draw(st.booleans()),
            "as": draw(st.sampled_from(["file", "file", "array", "list", "csv"])), "extra_cols": draw(st.booleans())}


@st.composite
def wedge_case(draw):
    nt = draw(st.integers(1, 5))
    ids = draw(st.lists(st.integers(1, 999), min_size=nt, max_size=nt, unique=True))
    return {"kind": "wedge", "tomos": ids, "ntilts": [draw(st.integers(1, 41)) for _ in range(nt)], "seed": draw(st.integers(0, 2**31 - 1)),
            "dims": [[draw(st.integers(100, 5000)), draw(st.integers(100, 5000)), draw(st.integers(50, 2500))] for _ in range(nt)],
            "dims_as": draw(st.sampled_from(["array1x3", "arrayNx4", "frameNx4", "fileNx4", "list3"])),
            "zshift": [draw(st.one_of(st.just(0.0), st.floats(-200, 200, allow_nan=False).map(lambda v: round(v, 2)))) for _ in range(nt)],
            "zshift_as": draw(st.sampled_from(["scalar", "arrayNx2", "frameNx2"])),
            "ctf": draw(st.sampled_from([None, "gctf", "ctffind4"])), "dose": draw(st.booleans()),
            "px": draw(st.one_of(st.floats(0.5, 20, allow_nan=False).map(lambda v: round(v, 4)), st.just(1.0))),
            "consts": [draw(st.sampled_from([300.0, 200.0])), draw(st.sampled_from([0.07, 0.1])), draw(st.sampled_from([2.7, 0.01]))],
            "tomo_list_as": draw(st.sampled_from(["list", "array", "file"])), "fn": draw(st.sampled_from(["batch", "batch", "single", "em"])),
            "write": draw(st.booleans()), "pad": draw(st.sampled_from(["$xxx", "$xxxx"]))}


def strategy(tier):
    return st.one_of(mdoc_case(), mdoc_case(), loaders_case(), wedge_case())


def corner_cases(tier):
    secs = [{"TiltAngle": "%.1f" % t, "Intensity": "0.00005", "Magnification": "81000", "Defocus": "-3.5", "ExposureDose": "3.0", "PriorRecordDose": "%d" % (3 * i),
             "SubFramePath": "X:\\d\\f_%d.tif" % i, "DateTime": "21-Jun-22  14:05:%02d" % i} for i, t in enumerate([0.0, 3.0, -3.0, 6.0, -6.0])]
    yield {"kind": "mdoc", "header": {"PixelSpacing": "1.35", "Voltage": "300", "ImageFile": "ts.mrc", "ImageSize": "4096 4096", "DataMode": "1"},
           "titles": ["T = SerialEM: x"], "sections": secs, "zvalues": [0, 1, 2, 3, 4],
           "ops": [{"op": "sort", "reset_z": False}, {"op": "remove", "picks": [0, 3], "from1": False}], "blank_lines": True, "via_helpers": False, "trailing_nl": True}
    yield {"kind": "loaders", "n": 5, "seed": 1, "which": "tlt", "permute": False, "phase": False, "comments": 0, "sort_mdoc": True, "as": "file", "extra_cols": False}
    yield {"kind": "loaders", "n": 5, "seed": 1, "which": "ctffind4", "permute": False, "phase": True, "comments": 3, "sort_mdoc": True, "as": "file", "extra_cols": False}
    yield {"kind": "wedge", "tomos": [17, 3], "ntilts": [5, 3], "seed": 4, "dims": [[4096, 4096, 1800], [3710, 3838, 1200]], "dims_as": "arrayNx4", "zshift": [0.0, 12.5],
           "zshift_as": "arrayNx2", "ctf": "gctf", "dose": True, "px": 2.176, "consts": [300.0, 0.07, 2.7], "tomo_list_as": "list", "fn": "batch", "write": True, "pad": "$xxx"}


def run(case):
    out = Outcome()
    {"mdoc": run_mdoc, "loaders": run_loaders, "wedge": run_wedge}[case["kind"]](case, out)
    return out


# ------------------------------------------------------------------------------------------------ mdoc
def render_mdoc(c):
    L = []
    for k, v in c["header"].items():
        L.append(f"{k} = {v}")
    L.append("")
    for t in c["titles"]:
        L.append(f"[{t}]")
        if c["blank_lines"]:
            L.append("")
    for i_, (z, sec) in enumerate(zip(c["zvalues"], c["sections"])):
        L.append(f"[ZValue = {z}]")
        items = list(sec.items())
        if c.get("key_order") == "varies" and i_ % 2 == 1:  # entries are addressed by key: their order inside a section is free
            items = items[1:] + items[:1] if i_ % 4 == 1 else items[::-1]
        for k, v in items:
            L.append(f"{k} = {v}")
        L.append("")
    return "\n".join(L) + ("\n" if c["trailing_nl"] else "")


def same_cell(actual, text):
    """generated value string vs value read: numbers numerically, text verbatim."""
    if isinstance(actual, str):
        return actual == text.strip()
    if isinstance(actual, (bool, np.bool_)):
        return False
    try:
        return float(actual) == float(text)
    except ValueError:
        return False


def cells_equal(a, b):
    num = lambda v: isinstance(v, (int, float, np.integer, np.floating)) and not isinstance(v, (bool, np.bool_))
    if num(a) and num(b):
        return float(a) == float(b) or abs(float(a) - float(b)) <= 1e-12 * abs(float(b))
    if isinstance(a, str) and isinstance(b, str):
        return a == b
    return False


def run_mdoc(c, out):
    from cryocat import mdoc as md

    text = render_mdoc(c)
    with open("in.mdoc", "w", newline="") as f:
        f.write(text)
    n = len(c["sections"])
    keys = list(c["sections"][0].keys())
    ops = c["ops"]
    tilts = [float(s["TiltAngle"]) for s in c["sections"]]
    unsorted = tilts != sorted(tilts)
    has_remove = any(o["op"] == "remove" for o in ops)
    out.nontrivial = has_remove and unsorted
    out.label("mdoc", f"ops:{'+'.join(o['op'] for o in ops) or 'none'}", "helpers" if c["via_helpers"] else "methods",
              "small_float" if any(re.match(r"^0\.0000", v) for s in c["sections"] for v in s.values()) or re.match(r"^0\.0000", c["header"]["PixelSpacing"]) else "no_small_float")
    ok, m = call(out, "Mdoc", lambda: md.Mdoc("in.mdoc"))
    if not ok:
        return
    # read(text) == generated instance
    if not out.check(list(m.titles) == list(c["titles"]), "mdoc_read:titles", f"{m.titles} vs {c['titles']}"):
        return
    if not out.check(list(m.project_info.keys()) == list(c["header"].keys()) and all(same_cell(m.project_info[k], v) for k, v in c["header"].items()),
                     "mdoc_read:header", lambda: f"{m.project_info} vs {c['header']}"):
        return
    imgs = m.imgs
    if not out.check(list(imgs.columns) == ["ZValue"] + keys + ["Removed"], "mdoc_read:columns", list(imgs.columns)):
        return
    if not out.check(len(imgs) == n, "mdoc_read:row_count", f"{len(imgs)} vs {n}"):
        return
    for i in range(n):
        row = imgs.iloc[i]
        if not (int(row["ZValue"]) == c["zvalues"][i] and all(same_cell(row[k], c["sections"][i][k]) for k in keys) and not row["Removed"]):
            bad = [k for k in keys if not same_cell(row[k], c["sections"][i][k])]
            out.fail("mdoc_read:cell", f"section {i} key {bad[:1]}: {row[bad[0]] if bad else row['ZValue']!r} vs {c['sections'][i].get(bad[0]) if bad else c['zvalues'][i]!r}")
            return
    # model of the table: list of (tag = original section number, removed flag)
    model = [[i, False] for i in range(n)]
    zmodel = list(c["zvalues"])
    cur_path = "in.mdoc"
    for step, o in enumerate(ops):
        if o["op"] == "sort":
            if c["via_helpers"]:
                ok, _ = call(out, "Mdoc.write", lambda: m.write("tmp_%d.mdoc" % step, overwrite=True, removed=True))
                if not ok:
                    return
                # helpers work on files: they see all images as kept again (the Removed flag is not stored)
                ok, m2 = call(out, "sort_mdoc_by_tilt_angles", lambda: md.sort_mdoc_by_tilt_angles("tmp_%d.mdoc" % step, reset_z_value=o["reset_z"]))
                if not ok:
                    return
                # carry the flags over by section identity (SubFramePath is unique)
                flags = {r["SubFramePath"]: r["Removed"] for _, r in m.imgs.iterrows()}
                m = m2
                for idx_, r in m.imgs.iterrows():
                    m.imgs.loc[idx_, "Removed"] = flags[r["SubFramePath"]]
            else:
                ok, _ = call(out, "sort_by_tilt", lambda: m.sort_by_tilt(reset_z_value=o["reset_z"]))
                if not ok:
                    return
            order = sorted(range(len(model)), key=lambda j: tilts[model[j][0]])
            model = [model[j] for j in order]
            zmodel = [zmodel[j] for j in order]
            if o["reset_z"]:
                zmodel = list(range(len(model)))
        else:
            kept = [j for j, (tag, rem) in enumerate(model) if not rem]
            if not kept:
                continue
            pos = sorted(set(p % len(kept) for p in o["picks"]))
            arg = [p + 1 for p in pos] if o["from1"] else list(pos)
            if c["via_helpers"] and not any(rem for _, rem in model):
                ok, _ = call(out, "Mdoc.write", lambda: m.write("tmpr_%d.mdoc" % step, overwrite=True, removed=True))
                if not ok:
                    return
                arg_form = ["list", "array", "file"][(step + len(pos)) % 3]
                if arg_form == "array":
                    arg = np.array(arg)
                elif arg_form == "file":
                    with open("idx_%d.txt" % step, "w") as fi:
                        fi.write("".join(f"{v}\n" for v in arg))
                    arg = "idx_%d.txt" % step
                out.label(f"helper_remove_indices_as:{arg_form}", "from1" if o["from1"] else "from0")
                ok, m = call(out, "mdoc.remove_images", lambda: md.remove_images("tmpr_%d.mdoc" % step, arg, numbered_from_1=o["from1"]))
                if not ok:
                    return
            else:
                ok, _ = call(out, "Mdoc.remove_images", lambda: m.remove_images(list(pos)))
                if not ok:
                    return
            for p in pos:
                model[kept[p]][1] = True
        # after every step: table == model
        imgs = m.imgs
        if not out.check(list(imgs.columns) == ["ZValue"] + keys + ["Removed"], f"mdoc_{o['op']}:keys_differ", lambda: f"{list(imgs.columns)}"):
            return
        if not out.check(len(imgs) == len(model), f"mdoc_{o['op']}:row_count", f"{len(imgs)}"):
            return
        got_tags = [int(r["SubFramePath"].rsplit("_", 1)[1].split(".")[0]) for _, r in imgs.iterrows()]
        if not out.check(got_tags == [t for t, _ in model], f"mdoc_{o['op']}:row_order", f"{got_tags[:10]} vs {[t for t, _ in model][:10]}"):
            return
        got_rem = [bool(v) for v in imgs["Removed"].tolist()]
        if not out.check(got_rem == [r for _, r in model], f"mdoc_{o['op']}:removed_flags", f"{got_rem[:12]} vs {[r for _, r in model][:12]}"):
            return
        if not out.check([int(v) for v in imgs["ZValue"].tolist()] == zmodel, f"mdoc_{o['op']}:zvalues", f"{imgs['ZValue'].tolist()[:8]} vs {zmodel[:8]}"):
            return
        for i_, (tag, _) in enumerate(model):
            row = imgs.iloc[i_]
            if not all(same_cell(row[k], c["sections"][tag][k]) for k in keys):
                out.fail(f"mdoc_{o['op']}:other_cell_changed", f"row {i_}")
                return
    # write (kept only) and re-read
    ok, _ = call(out, "Mdoc.write", lambda: m.write("out.mdoc", overwrite=True))
    if not ok:
        return
    kept_model = [(tag, z) for (tag, rem), z in zip(model, zmodel) if not rem]
    if not kept_model:
        return
    ok, m3 = call(out, "Mdoc(reread)", lambda: md.Mdoc("out.mdoc"))
    if not ok:
        return
    if not out.check(list(m3.titles) == list(m.titles), "mdoc_roundtrip:titles", f"{m3.titles}"):
        return
    for k in m.project_info:
        if not out.check(k in m3.project_info and cells_equal(m3.project_info[k], m.project_info[k]) and type(m3.project_info[k]) is type(m.project_info[k]) or
                         (k in m3.project_info and cells_equal(m3.project_info[k], m.project_info[k])),
                         "mdoc_roundtrip:header_value_changed_type_or_value", lambda: f"{k}: {m.project_info[k]!r} -> {m3.project_info.get(k)!r}"):
            return
    if not out.check(len(m3.imgs) == len(kept_model), "mdoc_roundtrip:written_sections_not_the_kept_ones", f"{len(m3.imgs)} vs {len(kept_model)}"):
        return
    if not out.check(list(m3.imgs.columns) == list(m.imgs.columns), "mdoc_roundtrip:keys_differ", lambda: f"missing {[k_ for k_ in m.imgs.columns if k_ not in m3.imgs.columns]} extra {[k_ for k_ in m3.imgs.columns if k_ not in m.imgs.columns]}"):
        return
    kept_rows = m.imgs[m.imgs["Removed"] == False]
    for i_ in range(len(kept_model)):
        r1, r3 = kept_rows.iloc[i_], m3.imgs.iloc[i_]
        if int(r3["ZValue"]) != kept_model[i_][1]:
            out.fail("mdoc_roundtrip:section_order_or_zvalue", f"position {i_}: ZValue {r3['ZValue']} vs {kept_model[i_][1]}")
            return
        for k in keys:
            if not cells_equal(r3[k], r1[k]):
                changed_type = isinstance(r3[k], str) != isinstance(r1[k], str)
                out.fail("mdoc_roundtrip:cell_became_text" if changed_type and isinstance(r3[k], str) else "mdoc_roundtrip:cell_changed", f"key {k}: {r1[k]!r} -> {r3[k]!r}")
                return
    # kept/removed views partition the table as the model says
    ok, km = call(out, "kept_images", lambda: (m.kept_images(), m.removed_images()))
    if ok:
        tag_of = lambda fr_: [int(v.rsplit("_", 1)[1].split(".")[0]) for v in fr_["SubFramePath"].tolist()]
        out.check(tag_of(km[0]) == [t for t, r_ in model if not r_] and tag_of(km[1]) == [t for t, r_ in model if r_], "mdoc_views:kept_removed_do_not_partition_as_flagged", "")
    # writing with removed=True keeps every image, in table order
    ok, _ = call(out, "Mdoc.write(removed=True)", lambda: m.write("all.mdoc", overwrite=True, removed=True))
    if ok:
        ok, m4 = call(out, "Mdoc(reread all)", lambda: md.Mdoc("all.mdoc"))
        if ok:
            out.check([int(v) for v in m4.imgs["ZValue"].tolist()] == zmodel, "mdoc_write_all:sections_not_all_images_in_table_order", f"{m4.imgs['ZValue'].tolist()[:8]} vs {zmodel[:8]}")
        # the tilt-angle helper: the file's angles in file order, and one per line in its output file
        ok, ta = call(out, "get_tilt_angles", lambda: md.get_tilt_angles("all.mdoc", output_file="all.tlt"))
        if ok:
            want_t = [tilts[t] for t, _ in model]
            out.check(close32(ta, want_t), "get_tilt_angles:not_file_order", lambda: f"{np.ravel(ta)[:5]} vs {want_t[:5]}")
            try:
                got_f = [float(x) for x in open("all.tlt").read().split()]
                out.check(close32(got_f, want_t), "get_tilt_angles:output_file", "")
            except Exception as e:
                out.fail("get_tilt_angles:output_file_unreadable", repr(e))
        # no path given: an instance read from a file writes back to that file
        ok, m5 = call(out, "Mdoc(all)", lambda: md.Mdoc("all.mdoc"))
        if ok:
            m5.sort_by_tilt(reset_z_value=True)
            ok, _ = call(out, "Mdoc.write(default path)", lambda: m5.write(overwrite=True))
            if ok:
                ok, m6 = call(out, "Mdoc(reread own)", lambda: md.Mdoc("all.mdoc"))
                if ok:
                    out.check(close32(m6.imgs["TiltAngle"].to_numpy(dtype=float), sorted(tilts[t] for t, _ in model)) and [int(v) for v in m6.imgs["ZValue"].tolist()] == list(range(len(model))),
                              "mdoc_write:default_path_does_not_hold_the_instance", "")
    out.check(not os.path.exists("never.mdoc"), "noop", "")


# ------------------------------------------------------------------------------------------------ loaders
def f32(a):
    return np.asarray(a, dtype=np.float32).astype(np.float64)


def close32(a, b):
    a, b = np.asarray(a, float), np.asarray(b, float)
    return a.shape == b.shape and bool(np.all(np.abs(a - b) <= 1e-6 * np.maximum(1.0, np.abs(b))))


def write_gctf(path, U, V, A, PH, extra, order=0):
    """columns are named, so their order in the file carries no meaning: order picks one of several layouts"""
    cols = ["rlnMicrographName"] * extra + ["rlnDefocusU", "rlnDefocusV", "rlnDefocusAngle"] + (["rlnPhaseShift"] if PH is not None else []) + (["rlnCtfFigureOfMerit"] if extra else [])
    data = {"rlnMicrographName": ["img_%03d.mrc" % i for i in range(len(U))], "rlnDefocusU": ["%.6f" % v for v in U], "rlnDefocusV": ["%.6f" % v for v in V],
            "rlnDefocusAngle": ["%.6f" % v for v in A], "rlnPhaseShift": ["%.6f" % v for v in PH] if PH is not None else None, "rlnCtfFigureOfMerit": ["0.123"] * len(U)}
    if order == 1:
        cols = cols[::-1]
    elif order == 2:
        cols = [c for c in cols if c in ("rlnDefocusAngle", "rlnPhaseShift")] + [c for c in cols if c not in ("rlnDefocusAngle", "rlnPhaseShift")]
    elif order == 3:
        cols = [c for c in cols if c == "rlnDefocusV"] + [c for c in cols if c != "rlnDefocusV"]
    with open(path, "w") as f:
        f.write("\ndata_\n\nloop_\n" + "".join(f"_{c} #{i + 1}\n" for i, c in enumerate(cols)))
        for i in range(len(U)):
            f.write(" ".join(data[c][i] for c in cols) + "\n")


def write_ctffind(path, U, V, A, PH, ncomments):
    with open(path, "w") as f:
        for i in range(ncomments):
            f.write("# comment line %d of ctffind4 output; columns: ...\n" % i)
        for i in range(len(U)):
            f.write("%.6f %.6f %.6f %.6f %.6f %.6f %.6f\n" % (i + 1, U[i], V[i], A[i], PH[i], 0.1 + 0.001 * i, 5.0 + i))


def run_loaders(c, out):
    import pandas as pd
    from cryocat import ioutils

    n, which = c["n"], c["which"]
    rng = np.random.default_rng(c["seed"])
    out.label("loaders", f"which:{which}", f"as:{c['as']}")
    out.nontrivial = n >= 2
    if which == "tlt":
        t = np.sort(np.round(rng.uniform(-70, 70, n), 2))
        if n >= 3 and c["seed"] % 3 == 0:  # an image taken twice at the same nominal tilt (both branches of a bidirectional series record 0)
            t[1] = t[0]
            out.label("tlt_with_repeated_angle")
        vals = rng.permutation(t) if c["permute"] else t
        if c["as"] == "file":
            with open("a.tlt", "w") as f:
                f.write("".join("%.2f\n" % v for v in vals))
            ok, r = call(out, "tlt_load", lambda: ioutils.tlt_load("a.tlt"))
            if ok:
                out.check(close32(r, np.sort(f32(vals))), "tlt_load:not_file_values_ascending", lambda: f"{np.ravel(r)[:5]} vs {np.sort(vals)[:5]}")
            ok, r = call(out, "tlt_load", lambda: ioutils.tlt_load("a.tlt", sort_angles=False))
            if ok:
                out.check(close32(r, f32(vals)), "tlt_load:unsorted_request_not_file_order", "")
            # the file is replaced under the same name: the loader must return the new content
            vals2 = np.sort(vals)[::-1] + 0.5
            with open("a.tlt", "w") as f:
                f.write("".join("%.2f\n" % v for v in vals2))
            ok, r = call(out, "tlt_load", lambda: ioutils.tlt_load("a.tlt"))
            if ok:
                out.check(close32(r, np.sort(f32(vals2))), "tlt_load:stale_content_after_file_was_rewritten", "")
        else:
            inp = vals.copy() if c["as"] == "array" else vals.tolist()
            ok, r = call(out, "tlt_load", lambda: ioutils.tlt_load(inp))
            if ok:
                out.check(close32(r, vals), "tlt_load:array_changed", "")
    elif which == "dose":
        d = np.round(rng.uniform(0, 300, n), 3)
        if c["as"] == "file":
            with open("dose.txt", "w") as f:
                f.write("".join("%.3f\n" % v for v in d))
            ok, r0 = call(out, "total_dose_load", lambda: ioutils.total_dose_load("dose.txt"))
            if ok and np.asarray(r0).size:
                try:
                    r0 += 1  # what the loader returned belongs to the caller
                except Exception:
                    pass
            ok, r = call(out, "total_dose_load", lambda: ioutils.total_dose_load("dose.txt"))
        elif c["as"] == "csv":
            # the table form: first column = row label, a CorrectedDose column and optionally a Removed flag per image
            removed = rng.random(n) < 0.3 if c["extra_cols"] else np.zeros(n, bool)
            if removed.all():
                removed[0] = False
            with open("dose.csv", "w") as f:
                f.write(",TiltAngle,CorrectedDose" + (",Removed" if c["extra_cols"] else "") + "\n")
                for i in range(n):
                    f.write(f"{i},{i * 3.0 - 30:.1f},{d[i]:.3f}" + (f",{bool(removed[i])}" if c["extra_cols"] else "") + "\n")
            out.label("dose_csv_with_removed" if removed.any() else "dose_csv")
            ok, r = call(out, "total_dose_load(csv)", lambda: ioutils.total_dose_load("dose.csv"))
            d = d[~removed]
        else:
            inp = d.copy() if c["as"] == "array" else d.tolist()
            ok, r = call(out, "total_dose_load", lambda: ioutils.total_dose_load(inp))
        if ok:
            out.check(close32(r, d), "dose_load:not_file_values_in_order", lambda: f"{np.ravel(r)[:5]} vs {d[:5]}")
    elif which == "mdoc_dose":
        tilts = rng.permutation(np.arange(n) * 3.0 - 30.0)
        expo = np.round(rng.uniform(1, 4, n), 2)
        prior = np.round(rng.uniform(0, 100, n), 2)
        with open("d.mdoc", "w") as f:
            f.write("PixelSpacing = 1.35\nVoltage = 300\n\n[T = SerialEM]\n\n")
            for i in range(n):
                f.write(f"[ZValue = {i}]\nTiltAngle = {tilts[i]:.1f}\nExposureDose = {expo[i]:.2f}\nPriorRecordDose = {prior[i]:.2f}\nDateTime = 21-Jun-22  14:05:{i % 60:02d}\n\n")
        ok, r = call(out, "total_dose_load(mdoc)", lambda: ioutils.total_dose_load("d.mdoc", sort_mdoc=c["sort_mdoc"]))
        if ok:
            order = np.argsort(tilts) if c["sort_mdoc"] else np.arange(n)
            want = (expo + prior)[order]
            good = close32(r, want)
            if not good and np.asarray(r).shape == want.shape:
                kind = "exposure_only" if close32(r, expo[order]) else ("order" if close32(np.sort(r), np.sort(want)) else "values")
            else:
                kind = "shape"
            out.check(good, f"mdoc_dose:not_prior_plus_exposure:{kind}", lambda: f"{np.ravel(r)[:5]} vs {want[:5]}")
        ok, r = call(out, "tlt_load(mdoc)", lambda: ioutils.tlt_load("d.mdoc"))
        if ok:
            out.check(close32(r, np.sort(tilts)), "tlt_load:mdoc_tilts_not_ascending", "")
        # the same unchanged file again, with the other ordering request: what was asked before must not decide the order now
        ok, _ = call(out, "total_dose_load(mdoc)", lambda: ioutils.total_dose_load("d.mdoc"))
        ok, r = call(out, "total_dose_load(mdoc)", lambda: ioutils.total_dose_load("d.mdoc", sort_mdoc=False))
        if ok:
            out.check(close32(r, expo + prior), "mdoc_dose:unsorted_request_after_sorted_one_not_in_file_order", lambda: f"{np.ravel(r)[:5]} vs {(expo + prior)[:5]}")
        ok, r = call(out, "tlt_load(mdoc)", lambda: ioutils.tlt_load("d.mdoc", sort_angles=False))
        if ok:
            out.check(close32(r, tilts), "tlt_load:mdoc_unsorted_request_after_sorted_one_not_in_file_order", lambda: f"{np.ravel(r)[:5]} vs {tilts[:5]}")
        ok, r = call(out, "total_dose_load(mdoc)", lambda: ioutils.total_dose_load("d.mdoc", sort_mdoc=True))
        if ok:
            out.check(close32(r, (expo + prior)[np.argsort(tilts)]), "mdoc_dose:sorted_request_after_unsorted_one_not_by_tilt", "")
    else:
        U = np.round(rng.uniform(5000, 60000, n), 2)
        V = np.round(U + rng.uniform(-800, 800, n), 2)
        A = np.round(rng.uniform(-90, 90, n), 3)
        PH = np.round(rng.uniform(0, 180, n), 3) if (c["phase"] or which == "ctffind4") else None
        if which == "gctf":
            write_gctf("ctf.star", U, V, A, PH, 1 if c["extra_cols"] else 0, order=c["seed"] % 4)
            out.label(f"gctf_column_layout:{c['seed'] % 4}")
            ok, r = call(out, "gctf_read", lambda: ioutils.defocus_load("ctf.star", "gctf"))
            tol = lambda a_, b_: bool(np.all(np.abs(np.asarray(a_, float) - b_) <= 1e-9 * np.maximum(1.0, np.abs(b_))))
        else:
            write_ctffind("ctf.txt", U, V, A, PH, c["comments"])
            ok, r = call(out, "ctffind4_read", lambda: ioutils.defocus_load("ctf.txt", "ctffind4"))
            tol = lambda a_, b_: close32(a_, b_)
        if ok:
            if not out.check(all(col in r.columns for col in ["defocus1", "defocus2", "astigmatism", "phase_shift", "defocus_mean"]) and len(r) == n, "defocus:columns_or_rows", f"{list(r.columns)} {len(r)}"):
                return
            s = "defocus_" + which
            if not tol(r["defocus1"].to_numpy(), U * 1e-4) or not tol(r["defocus2"].to_numpy(), V * 1e-4):
                fac = float(np.median(r["defocus1"].to_numpy(dtype=float) / U))
                out.fail(f"{s}:not_angstrom_to_micrometre", f"factor {fac:.3g} instead of 1e-4")
                return
            out.check(tol(r["defocus_mean"].to_numpy(), (U + V) / 2 * 1e-4), f"{s}:mean_not_half_sum", lambda: f"{r['defocus_mean'].to_numpy()[:3]} vs {((U + V) / 2 * 1e-4)[:3]}")
            out.check(tol(r["astigmatism"].to_numpy(), A), f"{s}:astigmatism", "")
            out.check(tol(r["phase_shift"].to_numpy(), PH if PH is not None else np.zeros(n)), f"{s}:phase_shift", "")
        # pass-through forms
        fr = pd.DataFrame({"defocus1": U, "defocus2": V, "astigmatism": A, "phase_shift": np.zeros(n), "defocus_mean": (U + V) / 2})
        ok, r2 = call(out, "defocus_load(frame)", lambda: ioutils.defocus_load(fr))
        if ok:
            out.check(r2.equals(fr), "defocus_load:frame_changed", "")
        arr = fr.to_numpy()
        ok, r3 = call(out, "defocus_load(array)", lambda: ioutils.defocus_load(arr.copy()))
        if ok:
            out.check(list(r3.columns) == list(fr.columns) and np.array_equal(r3.to_numpy(), arr), "defocus_load:array_changed_or_columns_misnamed", lambda: f"{list(r3.columns)}")


# ------------------------------------------------------------------------------------------------ wedge lists
def run_wedge(c, out):
    import pandas as pd
    from cryocat import wedgeutils

    rng = np.random.default_rng(c["seed"])
    tomos, nts = c["tomos"], c["ntilts"]
    T = len(tomos)
    pad = c["pad"]
    fmt = lambda stem, ext: f"{stem}_{pad}.{ext}"
    name = lambda stem, ext, t: f"{stem}_{str(t).zfill(len(pad) - 1)}.{ext}"
    tilts, defoc, doses = {}, {}, {}
    for t, n in zip(tomos, nts):
        tl = np.sort(np.round(rng.uniform(-70, 70, n), 2))
        while len(set(tl.tolist())) < n:
            tl = np.sort(np.round(rng.uniform(-70, 70, n), 2))
        tiny = c["seed"] % 3 == 0 and n >= 2
        if tiny:  # a refined near-zero tilt (numbers this small are printed in exponent notation by most writers)
            j = int(np.argmin(np.abs(tl)))
            tl[j] = [2e-05, -3.5e-05, 8e-06][c["seed"] % 9 // 3]
            tl = np.sort(tl)
        tilts[t] = tl
        with open(name("tlt", "tlt", t), "w") as f:
            f.write("".join(("%r\n" % float(v)) if tiny else ("%.2f\n" % v) for v in tl))
        if c["ctf"]:
            U = np.round(rng.uniform(5000, 60000, n), 2)
            V = np.round(U + rng.uniform(-800, 800, n), 2)
            defoc[t] = (U + V) / 2 * 1e-4
            if c["ctf"] == "gctf":
                write_gctf(name("ctf", "star", t), U, V, np.zeros(n), None, 0)
            else:
                write_ctffind(name("ctf", "txt", t), U, V, np.zeros(n), np.zeros(n), 2)
        if c["dose"]:
            d = np.round(np.cumsum(rng.uniform(1, 4, n)), 3)
            doses[t] = d
            with open(name("dose", "txt", t), "w") as f:
                f.write("".join("%.3f\n" % v for v in d))
    dims = {t: c["dims"][i] for i, t in enumerate(tomos)}
    zs = {t: c["zshift"][i] for i, t in enumerate(tomos)}
    dims_as = c["dims_as"]
    if dims_as in ("array1x3", "list3"):
        dims = {t: c["dims"][0] for t in tomos}
        dim_arg = np.array(c["dims"][0], float) if dims_as == "array1x3" else list(c["dims"][0])
    else:
        tab = np.array([[t] + dims[t] for t in tomos], float)
        tab = tab[rng.permutation(T)]
        if dims_as == "arrayNx4":
            dim_arg = tab
        elif dims_as == "frameNx4":
            dim_arg = pd.DataFrame(tab)
        else:
            np.savetxt("dims.txt", tab, fmt="%d")
            dim_arg = "dims.txt"
            if T == 1:
                dims_as = "fileNx4_single"
    if c["zshift_as"] == "scalar":
        zs = {t: c["zshift"][0] for t in tomos}
        z_arg = c["zshift"][0]
    else:
        ztab = np.array([[t, zs[t]] for t in tomos], float)
        z_arg = ztab if c["zshift_as"] == "arrayNx2" else pd.DataFrame(ztab)
    if c["tomo_list_as"] == "list":
        tl_arg = list(tomos)
    elif c["tomo_list_as"] == "array":
        tl_arg = np.array(tomos)
    else:
        with open("tomos.txt", "w") as f:
            f.write("".join(f"{t}\n" for t in tomos))
        tl_arg = "tomos.txt"
    px = c["px"]
    volt, amp, cs = c["consts"]
    fn = c["fn"]
    differ = T >= 2 and len(set(nts)) > 1 and len({tuple(dims[t]) for t in tomos}) > 1
    out.nontrivial = differ
    out.label("wedge", f"fn:{fn}", f"dims:{c['dims_as']}", f"zshift:{c['zshift_as']}", f"ctf:{c['ctf']}", "dose" if c["dose"] else "no_dose", f"tomo_list:{c['tomo_list_as']}")
    order = list(tomos) if c["tomo_list_as"] != "file" else sorted(tomos)  # a tomogram list file is loaded like a tilt file: ascending

    def expected_rows(ts):
        rows = []
        for t in ts:
            for i in range(len(tilts[t])):
                r = {"tomo_num": t, "pixelsize": px, "tomo_x": dims[t][0], "tomo_y": dims[t][1], "tomo_z": dims[t][2], "z_shift": zs[t], "tilt_angle": float(np.float32(tilts[t][i])),
                     "voltage": volt, "amp_contrast": amp, "cs": cs}
                if c["ctf"]:
                    r["defocus"] = defoc[t][i]
                if c["dose"]:
                    r["exposure"] = float(np.float32(doses[t][i]))
                rows.append(r)
        return rows

    def compare_table(get, nrows, rows, sig, tol):
        if not out.check(nrows == len(rows), f"{sig}:row_count_not_sum_of_tilt_counts", f"{nrows} vs {len(rows)}"):
            return False
        for col in rows[0]:
            got = get(col)
            if got is None:
                out.fail(f"{sig}:missing_column", col)
                return False
            want = np.array([r[col] for r in rows], float)
            got = np.asarray(got, float)
            if not np.all(np.abs(got - want) <= tol * np.maximum(1.0, np.abs(want))):
                i = int(np.argmax(np.abs(got - want)))
                swapped = col in ("tomo_x", "tomo_y") and np.all(np.abs(got - np.array([r["tomo_y" if col == "tomo_x" else "tomo_x"] for r in rows], float)) <= tol * np.maximum(1, np.abs(want)))
                first = np.all(np.abs(got - got[0]) == 0) and not np.all(want == want[0])
                kind = "x_y_swapped" if swapped else ("same_value_for_all_tomograms" if first else "value")
                out.fail(f"{sig}:{col}:{kind}", f"row {i} (tomogram {rows[i]['tomo_num']}): {got[i]!r} vs {want[i]!r}")
                return False
        return True

    if fn == "em":
        outp = "wl.em" if c["write"] else None
        ok, r = call(out, "create_wedge_list_em_batch", lambda: wedgeutils.create_wedge_list_em_batch(tl_arg, fmt("tlt", "tlt"), output_file=outp))
        if not ok:
            return
        want = np.array([[t, np.float32(tilts[t].min()), np.float32(tilts[t].max())] for t in order], dtype=np.float64)
        got = r.to_numpy(dtype=float)
        if not out.check(got.shape == want.shape and bool(np.all(np.abs(got - want) <= 1e-6 * np.maximum(1, np.abs(want)))), "em_wedge:rows_not_tomo_min_max", lambda: f"{got[:3].tolist()} vs {want[:3].tolist()}"):
            return
        if outp:
            try:
                em = oracle.em_read(outp)
            except Exception as e:
                out.fail("em_wedge:file_not_valid_em", repr(e))
                return
            out.check(em["dtype"] == np.float32 and em["dims"] == (3, T, 1), "em_wedge:file_layout", f"{em['dtype']} {em['dims']}")
            if em["dims"] == (3, T, 1):
                out.check(bool(np.all(np.abs(em["data"][:, :, 0].T - want) <= 1e-6 * np.maximum(1, np.abs(want)))), "em_wedge:file_values", "")
        return
    if fn == "single":
        t = tomos[0]
        ctf_file = None if not c["ctf"] else name("ctf", "star" if c["ctf"] == "gctf" else "txt", t)
        dose_file = name("dose", "txt", t) if c["dose"] else None
        outp = "wl.star" if c["write"] else None
        d_single = np.array(dims[t], float) if c["dims_as"] != "list3" else list(dims[t])
        ok, r = call(out, "create_wedge_list_sg", lambda: wedgeutils.create_wedge_list_sg(t, d_single, px, name("tlt", "tlt", t), z_shift=zs[t], ctf_file=ctf_file,
                                                                                          ctf_file_type=c["ctf"] or "gctf", dose_file=dose_file, voltage=volt, amp_contrast=amp, cs=cs, output_file=outp))
        ts = [t]
    else:
        outp = "wl.star" if c["write"] else None
        kw = dict(tomo_dim=dim_arg, z_shift=z_arg, voltage=volt, amp_contrast=amp, cs=cs, output_file=outp)
        if c["ctf"]:
            kw["ctf_file_format"] = fmt("ctf", "star" if c["ctf"] == "gctf" else "txt")
            kw["ctf_file_type"] = c["ctf"]
        if c["dose"]:
            kw["dose_file_format"] = fmt("dose", "txt")
        ok, r = call(out, "create_wedge_list_sg_batch", lambda: wedgeutils.create_wedge_list_sg_batch(tl_arg, px, fmt("tlt", "tlt"), **kw))
        ts = order
    if not ok:
        return
    rows = expected_rows(ts)
    if not compare_table(lambda col: r[col].to_numpy() if col in r.columns else None, len(r), rows, "sg_wedge", 1e-6):
        return
    if not c["ctf"]:
        out.check("defocus" not in r.columns, "sg_wedge:defocus_column_without_ctf", "")
    if outp:
        try:
            blocks = oracle.star_tokenize(open(outp, newline="").read())
        except ValueError as e:
            out.fail("sg_wedge:file_not_in_star_subset", str(e))
            return
        if not out.check(len(blocks) == 1 and blocks[0]["spec"] == "data_stopgap_wedgelist", "sg_wedge:block_name", [b["spec"] for b in blocks]):
            return
        b = blocks[0]
        out.check(all(x is None for x in b["label_comments"]), "sg_wedge:labels_numbered", "")
        cols = {l: [float(rw[j]) for rw in b["rows"]] for j, l in enumerate(b["labels"])}
        if not compare_table(lambda col: cols.get(col), len(b["rows"]), rows, "sg_wedge_file", 2e-6):
            return
        if T >= 1 and c["seed"] % 2 == 0:
            # the same list with its rows in acquisition-like order inside every tomogram (written by the harness): the EM
            # form still holds each tomogram's smallest and largest tilt
            pr = np.random.default_rng(c["seed"] + 5)
            by_t = {}
            for rw in b["rows"]:
                by_t.setdefault(rw[b["labels"].index("tomo_num")], []).append(rw)
            with open("wl_perm.star", "w") as fp_:
                fp_.write("\ndata_stopgap_wedgelist\n\nloop_\n" + "".join(f"_{l}\n" for l in b["labels"]) + "\n")
                for tk in by_t:
                    for j_ in pr.permutation(len(by_t[tk])):
                        fp_.write("\t".join(by_t[tk][j_]) + "\n")
                fp_.write("\n")
            out.label("sg_to_em:rows_unsorted_within_tomogram")
            ok, e3 = call(out, "wedge_list_sg_to_em(unsorted rows)", lambda: wedgeutils.wedge_list_sg_to_em("wl_perm.star", "conv_perm.em", write_out=True))
            if ok:
                want3 = np.array([[t, np.float32(tilts[t].min()), np.float32(tilts[t].max())] for t in sorted(ts)], dtype=float)
                got3 = e3.to_numpy(dtype=float)
                got3 = got3[np.argsort(got3[:, 0], kind="stable")] if got3.ndim == 2 and got3.shape[1] == 3 else got3
                out.check(got3.shape == want3.shape and bool(np.all(np.abs(got3 - want3) <= 2e-6 * np.maximum(1, np.abs(want3)))), "sg_to_em:not_min_max_when_rows_are_not_sorted", lambda: f"{got3[:3].tolist()} vs {want3[:3].tolist()}")
        if T >= 1:
            ok, e2 = call(out, "wedge_list_sg_to_em", lambda: wedgeutils.wedge_list_sg_to_em(outp, "conv.em", write_out=True))
            if ok:
                want = np.array([[t, np.float32(tilts[t].min()), np.float32(tilts[t].max())] for t in sorted(ts)], dtype=float)
                got = e2.to_numpy(dtype=float)
                out.check(got.shape == want.shape and bool(np.all(np.abs(got - want) <= 2e-6 * np.maximum(1, np.abs(want)))), "sg_to_em:rows_not_tomo_min_max", lambda: f"{got[:3].tolist()} vs {want[:3].tolist()}")
                try:
                    em = oracle.em_read("conv.em")
                    out.check(em["dims"] == (3, len(want), 1) and bool(np.all(np.abs(em["data"][:, :, 0].T - want) <= 2e-6 * np.maximum(1, np.abs(want)))), "sg_to_em:file_values", f"{em['dims']}")
                except Exception as e:
                    out.fail("sg_to_em:file_not_valid_em", repr(e))


# rejected calls that run before every case (vlib/faults.py): nothing they leave behind - module state, library options,
# stray files - may make the valid calls of the case violate the statement
from vlib import faults as _faults  # noqa: E402

fault_calls = _faults.for_property(ID)
