"""C09 - spatial filters keep exactly the particles that lie inside."""
import math
import os

import numpy as np
from hypothesis import strategies as st

from vlib import gen, oracle
from vlib.runner import Outcome, call

ID = "C09"
RULE = (
    "Particle tables (1..14 rows element-wise, optional PRNG bulk up to 60; 1..4 tomograms with different dimensions; "
    "unique ids; column permutation; non-default row labels) whose COMPLETE positions are drawn per axis from {well "
    "inside, exactly 0, exactly dim-1, dim, dim-0.5, dim+0.5, <= -1, far outside} with non-zero shifts (so x alone and "
    "x+shift disagree about insideness). Four filters: out-of-bounds removal (boundary type center/whole, box 1..40 odd "
    "and even, dimension table as array / DataFrame / text file in any row order), trimming adaptation (1-based [start,end] boxes), "
    "cleaning against reference points (per-tomogram points, radius 0.5..20, in place or not), cleaning by tomogram "
    "masks (per-tomogram or one shared binary mask up to 24^3, particles outside the mask volume, tomograms not "
    "listed). Oracle: the analytic inside-predicate evaluated per particle in the harness (brute force, no KD-tree); "
    "survivors must be exactly the predicted rows, in the predicted order, with all 20 fields unchanged (apart from the "
    "documented x,y,z offset of trimming). Non-trivial: both a removed and a kept particle, and some particle whose x "
    "is inside while x+shift is outside (or vice versa) or a particle exactly on a face."
)
ASSUMPTIONS = [
    "dimension tables list every tomogram of the particle list (Nx4 form)",
    "reference-point cases with a particle within 1e-9 of the radius are filtered (distance tie)",
    "mask cases avoid complete positions in the open interval (-1,0), where truncation toward zero and 'outside the volume' disagree by convention",
    "known finding (known_findings.json): out-of-bounds removal never tests the lower faces; cases whose result equals 'upper faces only' are counted under that signature, any other deviation is a violation",
]
BUDGET = {"quick": {"examples": 2400, "seconds": 85}, "thorough": {"examples": 6000, "seconds": 540}}

C = oracle.MOTL_COLUMNS
IX = {c: i for i, c in enumerate(C)}

pos_class = st.sampled_from(["in", "in", "in", "in", "in", "in", "in", "in", "in", "zero", "dim-1", "dim", "dim-.5", "dim+.5", "neg", "neg.5", "far", "any"])
half_shift = st.integers(-4, 4).map(lambda k: k / 2.0)


@st.composite
def particles(draw, n_tomo, dims):
    n = draw(st.integers(1, 14))
    rows = []
    for _ in range(n):
        t = draw(st.integers(1, n_tomo))
        D = dims[t - 1]
        p = []
        for a in range(3):
            k = draw(pos_class)
            d = D[a]
            if k == "in":
                v = draw(st.one_of(st.integers(1, max(1, d - 2)).map(float), gen.finite(1, max(1.5, d - 1.5))))
            elif k == "zero":
                v = 0.0
            elif k == "dim-1":
                v = float(d - 1)
            elif k == "dim":
                v = float(d)
            elif k == "dim-.5":
                v = d - 0.5
            elif k == "dim+.5":
                v = d + 0.5
            elif k == "neg":
                v = float(-draw(st.integers(1, 6)))
            elif k == "neg.5":
                v = -draw(st.integers(1, 6)) - 0.5
            elif k == "far":
                v = float(d + draw(st.integers(5, 60)))
            else:
                v = draw(gen.finite(-5, d + 5))
                if -1 < v < 0:
                    v = -1.0
            p.append(v)
        sh = [draw(half_shift) for _ in range(3)]
        rows.append({"tomo": t, "pos": p, "shift": sh, "free": [draw(gen.small_int) for _ in range(3)], "angles": draw(gen.euler())})
    return rows


@st.composite
def strategy_case(draw):
    nt = draw(st.integers(1, 4))
    dims = [[draw(st.integers(6, 60)) for _ in range(3)] for _ in range(nt)]
    c = {"kind": draw(st.sampled_from(["oob", "oob", "trim", "points", "mask"])), "dims": dims, "parts": draw(particles(nt, dims)),
         "ids_seed": draw(st.integers(0, 10**6)), "cols_seed": draw(st.integers(0, 10**6)),
         "index": draw(st.sampled_from(["default", "default", "reversed", "offset", "strided", "repeated"])),
         "bulk": draw(st.one_of(st.none(), st.none(), st.fixed_dictionaries({"seed": st.integers(0, 2**31 - 1), "n": st.integers(1, 60)})))}
    k = c["kind"]
    if k == "oob":
        c["btype"] = draw(st.sampled_from(["center", "whole", "whole"]))
        c["box"] = draw(st.one_of(st.integers(1, 40), st.integers(1, 8)))
        c["dims_as"] = draw(st.sampled_from(["array", "frame", "file"]))
        c["dims_perm"] = draw(st.integers(0, 10**6))
        c["extra_tomo"] = draw(st.booleans())
    elif k == "trim":
        st_ = [draw(st.integers(1, 25)) for _ in range(3)]
        if draw(st.integers(0, 5)) == 0:
            st_ = [1, 1, 1]  # cropped at the far end only
        c["start"] = st_
        c["end"] = [s + draw(st.integers(0, 40)) for s in st_]
        c["as"] = draw(st.sampled_from(["list", "array"]))
    elif k == "points":
        npnt = draw(st.integers(0, 6))
        c["points"] = [{"tomo": draw(st.integers(1, nt + 1)), "p": [draw(gen.finite(-5, 60)) for _ in range(3)],
                        "near": draw(st.one_of(st.none(), st.integers(0, 13)))} for _ in range(npnt)]
        c["radius"] = draw(st.one_of(gen.finite(0.5, 20), st.integers(1, 10).map(float)))
        c["inplace"] = draw(st.booleans())
        if draw(st.integers(0, 2)) == 0 and npnt:
            # crowded tomograms: hundreds of particles, many of them (more than any fixed neighbour count) inside one sphere
            c["bulk"] = {"seed": draw(st.integers(0, 2**31 - 1)), "n": draw(st.integers(150, 400))}
            c["radius"] = draw(st.integers(15, 45)) + 0.37
    else:
        c["mshape"] = [[draw(st.integers(3, 24)) for _ in range(3)] for _ in range(nt)]
        c["mseed"] = draw(st.integers(0, 2**31 - 1))
        c["density"] = draw(st.sampled_from([0.3, 0.6, 0.9]))
        c["listed"] = draw(st.lists(st.integers(1, nt + 1), min_size=1, max_size=nt + 1, unique=True))
        c["shared"] = draw(st.integers(0, 3)) == 0
        c["inplace"] = draw(st.booleans())
        c["soft"] = draw(st.booleans())
    return c


def strategy(tier):
    return strategy_case()


def corner_cases(tier):
    parts = [{"tomo": 1, "pos": [-5.0, 10.0, 10.0], "shift": [0, 0, 0], "free": [1, 2, 3], "angles": [0, 0, 0]},
             {"tomo": 1, "pos": [10.0, 10.0, 10.0], "shift": [0.5, 0, 0], "free": [1, 2, 3], "angles": [0, 0, 0]},
             {"tomo": 1, "pos": [10.0, 10.0, 200.0], "shift": [0, 0, 1.0], "free": [1, 2, 3], "angles": [0, 0, 0]},
             {"tomo": 1, "pos": [49.0, 0.0, 49.0], "shift": [0, -1.0, 0], "free": [1, 2, 3], "angles": [0, 0, 0]}]
    base = {"dims": [[50, 50, 50]], "parts": parts, "ids_seed": 1, "cols_seed": 0, "index": "default", "bulk": None}
    yield dict(base, kind="oob", btype="center", box=1, dims_as="array", dims_perm=0, extra_tomo=False)
    yield dict(base, kind="oob", btype="whole", box=8, dims_as="frame", dims_perm=0, extra_tomo=True)
    p2 = [{"tomo": 1, "pos": [100.0, 10.0, 10.0], "shift": [0, 0, 0], "free": [0, 0, 0], "angles": [0, 0, 0]},
          {"tomo": 1, "pos": [5.0, 5.0, 5.0], "shift": [0, 0, 0], "free": [0, 0, 0], "angles": [0, 0, 0]},
          {"tomo": 1, "pos": [6.0, 6.0, 6.0], "shift": [0, 0, 0], "free": [0, 0, 0], "angles": [0, 0, 0]},
          {"tomo": 1, "pos": [7.0, 7.0, 7.0], "shift": [0, 0, 0], "free": [0, 0, 0], "angles": [0, 0, 0]}]
    yield {"kind": "mask", "dims": [[20, 20, 20]], "parts": p2, "ids_seed": 2, "cols_seed": 0, "index": "default", "bulk": None,
           "mshape": [[20, 20, 20]], "mseed": 7, "density": 0.6, "listed": [1], "shared": False, "inplace": True, "soft": False}


def build(case):
    import pandas as pd

    parts = list(case["parts"])
    if case.get("bulk"):
        rng = np.random.default_rng(case["bulk"]["seed"])
        nt = len(case["dims"])
        for _ in range(case["bulk"]["n"]):
            t = int(rng.integers(1, nt + 1))
            D = case["dims"][t - 1]
            p = []
            for a in range(3):
                d = D[a]
                v = float(rng.choice([rng.uniform(1, d - 1), 0, d - 1, d, d - 0.5, d + 0.5, -1, -3.5, d + 20, np.round(rng.uniform(-5, d + 5))]))
                if -1 < v < 0:
                    v = -1.0
                p.append(v)
            parts.append({"tomo": t, "pos": p, "shift": list(np.round(rng.uniform(-2, 2, 3) * 2) / 2), "free": [0, 0, 0], "angles": list(rng.uniform(-180, 180, 3))})
    n = len(parts)
    rng = np.random.default_rng(case["ids_seed"])
    ids = rng.permutation(np.arange(1, 3 * n + 1))[:n]
    a = np.zeros((n, 20))
    for i, p in enumerate(parts):
        a[i, IX["subtomo_id"]] = ids[i]
        a[i, IX["tomo_id"]] = p["tomo"]
        a[i, IX["object_id"]] = 1 + i % 3
        a[i, IX["class"]] = 1 + i % 2
        a[i, IX["score"]] = 0.01 * (i + 1)
        a[i, IX["subtomo_mean"]] = i  # tag
        for k, ax in enumerate("xyz"):
            a[i, IX[ax]] = p["pos"][k] - p["shift"][k]
            a[i, IX["shift_" + ax]] = p["shift"][k]
        a[i, IX["geom1"]], a[i, IX["geom2"]], a[i, IX["geom3"]] = p["free"]
        a[i, IX["phi"]], a[i, IX["theta"]], a[i, IX["psi"]] = p["angles"]
    pos = a[:, [IX["x"], IX["y"], IX["z"]]] + a[:, [IX["shift_x"], IX["shift_y"], IX["shift_z"]]]
    crng = np.random.default_rng(case["cols_seed"])
    cols = list(C) if case["cols_seed"] % 3 == 0 else [C[j] for j in crng.permutation(20)]
    t = {"cols": cols, "rows": a.tolist(), "bulk": None, "index": case["index"]}
    return gen.table_df(t), a, pos


def compare(out, df, a, keep_idx, sig, offset=None):
    """df: result; a: original canonical array; keep_idx: predicted surviving original row numbers, in order."""
    if not out.check(sorted(df.columns) == sorted(C) and len(df.columns) == 20, f"{sig}:columns", list(df.columns)):
        return False
    got = df[C].to_numpy(dtype=float)
    tags = [int(round(v)) for v in got[:, IX["subtomo_mean"]]]
    if tags != list(keep_idx):
        if sorted(tags) == sorted(keep_idx):
            # the statement fixes the surviving SET; lists are per-tomogram collections, so only the order of the survivors
            # within each tomogram (their original order) is required - how tomograms follow each other is not
            tomo_of = {i: a[i, IX["tomo_id"]] for i in keep_idx}
            per_got, per_exp = {}, {}
            for t_ in tags:
                per_got.setdefault(tomo_of[t_], []).append(t_)
            for t_ in keep_idx:
                per_exp.setdefault(tomo_of[t_], []).append(t_)
            if any(per_got[k_] != sorted(per_got[k_]) for k_ in per_got):
                out.fail(f"{sig}:survivor_order", f"{tags[:12]} vs {list(keep_idx)[:12]}")
                return False
            out.label(f"{sig}:tomograms_in_other_order_than_the_model")
            pos_ = {t_: i_ for i_, t_ in enumerate(tags)}
            got = got[[pos_[t_] for t_ in keep_idx]]
            tags = list(keep_idx)
        else:
            extra = sorted(set(tags) - set(keep_idx))
            missing = sorted(set(keep_idx) - set(tags))
            out.fail(f"{sig}:survivor_set", f"kept but should be removed: rows {extra[:8]}; removed but should be kept: rows {missing[:8]}")
            return False
    exp = a[list(keep_idx)].copy()
    if offset is not None:
        exp[:, [IX["x"], IX["y"], IX["z"]]] -= offset
    if not np.array_equal(got, exp):
        i, j = np.argwhere(got != exp)[0]
        out.fail(f"{sig}:survivor_field_changed", f"row tag {tags[i]} field {C[j]}: {got[i, j]!r} vs {exp[i, j]!r}")
        return False
    return True


def check_output_file(out, path, df, sig):
    """the list written on request is the returned list (EM motl file: float32, 20 canonical fields, row order)"""
    if not out.check(os.path.isfile(path), f"{sig}:output_file_missing", path):
        return
    try:
        em = oracle.em_read(path)
    except Exception as e:
        out.fail(f"{sig}:output_file_not_valid_em", repr(e))
        return
    want = df[oracle.MOTL_COLUMNS].to_numpy(dtype=np.float32)
    if out.check(em["dims"] == (20, len(df), 1), f"{sig}:output_file_dims", f"{em['dims']} for {len(df)} kept particles"):
        out.check(np.array_equal(em["data"][:, :, 0].T, want), f"{sig}:output_file_is_not_the_cleaned_list", "")



def run(case):
    import pandas as pd
    from cryocat import cryomotl

    out = Outcome()
    df, a, pos = build(case)
    n = len(a)
    tomo = a[:, IX["tomo_id"]].astype(int)
    xyz = a[:, [IX["x"], IX["y"], IX["z"]]]
    dims = case["dims"]
    k = case["kind"]
    out.label(f"kind:{k}", f"index:{case['index']}")
    ok, m = call(out, "Motl", lambda: cryomotl.Motl(df.copy()))
    if not ok:
        return out

    def inside_box(p, D, b):
        return all(0 <= p[a_] - b for a_ in range(3)) and all(p[a_] + b < D[a_] for a_ in range(3))

    disagree = False
    if k == "oob":
        b = math.ceil(case["box"] / 2) if case["btype"] == "whole" else 0
        keep = [i for i in range(n) if inside_box(pos[i], dims[tomo[i] - 1], b)]
        upper_only = [i for i in range(n) if all(pos[i][a_] + b < dims[tomo[i] - 1][a_] for a_ in range(3))]
        disagree = any(inside_box(xyz[i], dims[tomo[i] - 1], b) != inside_box(pos[i], dims[tomo[i] - 1], b) for i in range(n))
        onface = any(pos[i][a_] - b == 0 or pos[i][a_] + b in (dims[tomo[i] - 1][a_], dims[tomo[i] - 1][a_] - 1) for i in range(n) for a_ in range(3))
        rng = np.random.default_rng(case["dims_perm"])
        rows = [[t + 1] + dims[t] for t in range(len(dims))]
        if case["extra_tomo"]:
            rows.append([len(dims) + 3, 30, 30, 30])
        rows = [rows[j] for j in rng.permutation(len(rows))]
        tab = np.array(rows, dtype=float)
        if case["dims_as"] == "file":
            np.savetxt("dims.txt", tab, fmt="%d")
            arg = "dims.txt"
            if len(tab) == 1:  # a one-line file has three or four numbers; with four it is still the per-tomogram form
                pass
        else:
            arg = tab if case["dims_as"] == "array" else pd.DataFrame(tab, columns=["tomo_id", "x", "y", "z"])
        out.label(f"dims:{case['dims_as']}")
        out.label(f"btype:{case['btype']}")
        kw = {"boundary_type": case["btype"]}
        if case["btype"] == "whole":
            kw["box_size"] = case["box"]
        arg_keep = arg.copy() if hasattr(arg, "copy") else arg
        # the same table object first serves another list (a copy of this one): no state may be carried in it
        call(out, "remove_out_of_bounds_particles", lambda: cryomotl.Motl(df.copy()).remove_out_of_bounds_particles(arg, **kw))
        if hasattr(arg, "equals"):
            out.check(arg.equals(arg_keep), "oob:dimension_table_modified", "")
        elif isinstance(arg, np.ndarray):
            out.check(np.array_equal(arg, arg_keep), "oob:dimension_table_modified", "")
        ok, _ = call(out, "remove_out_of_bounds_particles", lambda: m.remove_out_of_bounds_particles(arg, **kw))
        if ok:
            got_tags = [int(round(v)) for v in m.df[C].to_numpy(dtype=float)[:, IX["subtomo_mean"]]] if sorted(m.df.columns) == sorted(C) else None
            if got_tags is not None and got_tags != keep and got_tags == upper_only:
                # exactly the upper-faces-only result: the listed known finding, nothing else wrong
                sub = Outcome()
                if compare(sub, m.df, a, upper_only, "oob"):
                    out.fail("oob:kept_only_lower_face_violators", f"kept rows {sorted(set(upper_only) - set(keep))[:6]} lie below a lower face (box half {b})")
                else:
                    out.violations.extend(sub.violations)
            else:
                compare(out, m.df, a, keep, "oob")
        out.nontrivial = 0 < len(keep) < n and (disagree or onface)
    elif k == "trim":
        s, e = np.array(case["start"]), np.array(case["end"])
        off = s - 1
        newx = xyz - off
        td = e - s + 1
        keep = [i for i in range(n) if all(1 <= newx[i][a_] <= td[a_] for a_ in range(3))]
        arg_s, arg_e = (list(case["start"]), list(case["end"])) if case["as"] == "list" else (s.copy(), e.copy())
        ok, _ = call(out, "adapt_to_trimming", lambda: m.adapt_to_trimming(arg_s, arg_e))
        if ok:
            compare(out, m.df, a, keep, "trim", offset=off)
        onface = any(newx[i][a_] in (1, td[a_]) for i in range(n) for a_ in range(3))
        pk = [all(1 <= (pos[i] - off)[a_] <= td[a_] for a_ in range(3)) for i in range(n)]
        disagree = any(pk[i] != (i in set(keep)) for i in range(n))
        out.nontrivial = 0 < len(keep) < n and (disagree or onface)
    elif k == "points":
        pts = []
        for p in case["points"]:
            q = list(p["p"])
            if p["near"] is not None and n:
                q = list(pos[p["near"] % n] + np.array(q) / 30.0)  # a point close to an actual particle
            pts.append([p["tomo"]] + q)
        P = pd.DataFrame(pts, columns=["tomo_id", "x", "y", "z"]) if pts else pd.DataFrame({"tomo_id": [], "x": [], "y": [], "z": []}, dtype=float)
        r = float(case["radius"])
        rem = set()
        for i in range(n):
            for q in pts:
                if q[0] == tomo[i]:
                    d = math.dist(pos[i], q[1:])
                    if abs(d - r) <= 1e-9 * max(1.0, r):
                        out.filtered = "radius_tie"
                        return out
                    if d <= r:
                        rem.add(i)
        order = list(dict.fromkeys(tomo.tolist()))
        keep = [i for t in order for i in range(n) if tomo[i] == t and i not in rem]
        okw = {"output_file": "cleaned.em"} if case["ids_seed"] % 2 == 0 else {}
        if case["inplace"]:
            ok, _ = call(out, "clean_by_distance_to_points", lambda: m.clean_by_distance_to_points(P, r, **okw))
            res = m
        else:
            before = m.df.copy()
            ok, res = call(out, "clean_by_distance_to_points", lambda: m.clean_by_distance_to_points(P, r, inplace=False, **okw))
            if ok:
                out.check(m.df.equals(before), "points:not_inplace_call_modified_list", "")
        if ok:
            compare(out, res.df, a, keep, "points")
            if okw and len(res.df):
                out.label("points:output_file")
                check_output_file(out, "cleaned.em", res.df, "points")
            if not case["inplace"]:
                # two live lists: the returned list is edited in place; the list it was filtered from must not follow
                _faults.scribble(res)
                out.check(m.df.equals(before), "points:editing_the_returned_list_changed_the_source_list", "")
        remx = {i for i in range(n) for q in pts if q[0] == tomo[i] and math.dist(xyz[i], q[1:]) <= r}
        out.nontrivial = 0 < len(keep) < n and remx != rem
        if any(q[0] > len(dims) for q in pts):
            out.label("points:tomogram_without_particles")
    else:
        rng = np.random.default_rng(case["mseed"])
        nt = len(dims)
        shapes = case["mshape"]
        masks = []
        for t in range(nt):
            sh = tuple(shapes[0] if case["shared"] else shapes[t])
            mk = (rng.random(sh) < case["density"]).astype(float)
            if case["soft"]:
                mk = np.where(mk > 0, rng.uniform(0.51, 1.0, sh), rng.uniform(0.0, 0.49, sh))
            masks.append(mk)
        listed = list(case["listed"])
        if case["shared"]:
            arg_masks = masks[0]
            mask_of = {t: masks[0] for t in listed}
        else:
            # masks for a whole data set, list of a subset: a listed tomogram without any particle has its own mask too
            # (an empty one, so that taking it for another tomogram's mask would remove everything there)
            masks.append(np.zeros(tuple(shapes[0])))
            if (nt + 1) in listed and case["mseed"] % 2 == 0:
                listed = [nt + 1] + [t for t in listed if t != nt + 1]  # ... and may stand first
            arg_masks = [masks[t - 1] for t in listed]
            mask_of = {t: masks[t - 1] for t in listed}
        keep = []
        outside_any = False
        for i in range(n):
            t = tomo[i]
            if t in mask_of:
                mk = mask_of[t]
                c = np.trunc(pos[i]).astype(int)
                inside = all(pos[i][a_] >= 0 and c[a_] < mk.shape[a_] for a_ in range(3))
                if not inside:
                    outside_any = True
                if inside and mk[tuple(c)] <= 0.5:
                    continue
            keep.append(i)
        if outside_any:
            out.label("mask:particle_outside_mask_volume")
        if any(t > nt for t in listed):
            out.label("mask:listed_tomogram_without_particles")
        if any(t not in mask_of for t in tomo):
            out.label("mask:tomogram_not_listed")
        keeps = [mk.copy() for mk in masks]
        okw = {"output_file": "cleaned.em"} if case["ids_seed"] % 2 == 0 else {}
        if case["inplace"]:
            ok, _ = call(out, "clean_by_tomo_mask", lambda: m.clean_by_tomo_mask(listed, arg_masks, **okw))
            res = m
        else:
            before = m.df.copy()
            ok, res = call(out, "clean_by_tomo_mask", lambda: m.clean_by_tomo_mask(listed, arg_masks, inplace=False, **okw))
            if ok:
                out.check(m.df.equals(before), "mask:not_inplace_call_modified_list", "")
        if ok:
            compare(out, res.df, a, keep, "mask")
            if okw and len(res.df):
                out.label("mask:output_file")
                check_output_file(out, "cleaned.em", res.df, "mask")
            if not case["inplace"]:
                # two live lists: the returned list is edited in place; the list it was filtered from must not follow
                _faults.scribble(res)
                out.check(m.df.equals(before), "mask:editing_the_returned_list_changed_the_source_list", "")
        out.check(all(np.array_equal(x, y) for x, y in zip(masks, keeps)), "mask:mask_array_modified", "")
        keepx = []
        out.nontrivial = 0 < len(keep) < n and outside_any
    return out


# rejected calls that run before every case (vlib/faults.py): nothing they leave behind - module state, library options,
# stray files - may make the valid calls of the case violate the statement
from vlib import faults as _faults  # noqa: E402

fault_calls = _faults.for_property(ID)
