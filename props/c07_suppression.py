"""C07 - score-ranked distance suppression keeps a separated, dominating set (clean_by_distance, TM peak extraction)."""
import math

import numpy as np
from hypothesis import strategies as st

from vlib import gen, oracle
from vlib.runner import Outcome, call

ID = "C07"
RULE = (
    "(A) particle lists of 1..400 particles (clusters of drawn width around a few centres so that many pairs are near "
    "d; chains A-B-C with |AB|,|BC| < d <= |AC|; non-zero shifts; 1..4 groups by tomo_id / object_id / class / geom1; "
    "metric score or geom2 with repeated values; either direction; d in 0.5..10; column permutation and non-default "
    "row labels). Oracle A (validity, not a re-implementation of the greedy order): per group all surviving pairs are "
    ">= d apart, every removed particle has a survivor of its own group within < d whose metric is >= (<=) its own, "
    "survivors are original rows with all 20 fields unchanged and none duplicated, and cleaning each group's sub-list "
    "alone gives the same survivors. (B) score maps up to 40^3 (non-cubic) with plateau-free PRNG scores (+ optional "
    "smooth bumps), angle map of indices into a list of 1..200 triples, threshold direct or in sigmas, diameter 1..8 "
    "(integers give exact lattice distances), angles_numbering 0/1, zxz list as array or CSV, zzx list as CSV. Oracle B "
    "(brute force): peak score > threshold and == map value at (x-1,y-1,z-1); pairwise peak distance > diameter; every "
    "supra-threshold voxel has a peak within <= diameter with score >= its own; angles == list row (angle_map - "
    "numbering); tomo/object/class as requested; ids 1..P; no peak twice. Non-trivial: (A) something removed and a "
    "surviving pair within 2d; (B) >= 2 peaks and >= 1 suppressed supra-threshold voxel."
)
ASSUMPTIONS = [
    "cases with a same-group pair distance within 1e-9 of d (A), or a voxel within 1e-12 of the threshold (B), are filtered (ties)",
    "array angle lists are used only with angles_order zxz (the array + zzx combination is documented inconsistently)",
    "cluster_size, n_particles, symmetry and tomo_mask options of the peak extraction are left at their defaults",
]
BUDGET = {"quick": {"examples": 1300, "seconds": 85}, "thorough": {"examples": 3500, "seconds": 540}}

C = oracle.MOTL_COLUMNS
IX = {c: i for i, c in enumerate(C)}


@st.composite
def dist_case(draw):
    n_groups = draw(st.integers(1, 4))
    d = draw(st.one_of(st.floats(0.5, 10, allow_nan=False), st.integers(1, 6).map(float)))
    return {"kind": "distance", "seed": draw(st.integers(0, 2**31 - 1)), "n": draw(st.one_of(st.integers(1, 30), st.integers(1, 400))),
            "n_groups": n_groups, "n_centres": draw(st.integers(1, 6)), "width": draw(st.floats(0.2, 3.0, allow_nan=False)), "d": d,
            "field": draw(st.sampled_from(["tomo_id", "object_id", "class", "geom1"])),
            "metric": draw(st.sampled_from(["score", "score", "geom2"])), "keep_greater": draw(st.booleans()),
            "chains": draw(st.integers(0, 3)), "cols_seed": draw(st.integers(0, 10**6)),
            "index": draw(st.sampled_from(["default", "default", "reversed", "strided", "repeated"])),
            "group_values": draw(st.lists(st.integers(1, 9), min_size=n_groups, max_size=n_groups, unique=True)),
            "id_base": draw(st.sampled_from([0, 0, 0, 230100, 1000000])),  # date-coded / six-digit group numbers that differ by 1
            "int_coords": draw(st.integers(0, 5)) == 0,
            "near_pairs": draw(st.integers(0, 3)), "near_eps": draw(st.sampled_from([1e-6, 1e-5, 5e-5, 2e-4])),
            "origin": draw(st.sampled_from([0.0, 0.0, 1000.0, 2500.0]))}


@st.composite
def peak_case(draw):
    shape = [draw(st.integers(4, 40)), draw(st.integers(4, 40)), draw(st.integers(4, 40))]
    while shape[0] * shape[1] * shape[2] > 30000:
        i = int(np.argmax(shape))
        shape[i] = max(4, shape[i] // 2)
    order = draw(st.sampled_from(["zxz", "zxz", "zzx"]))
    return {"kind": "peaks", "seed": draw(st.integers(0, 2**31 - 1)), "shape": shape, "bumps": draw(st.integers(0, 4)),
            "n_angles": draw(st.one_of(st.integers(1, 200), st.integers(1, 200), st.sampled_from([150, 32769, 40000, 70000]))), "thr_mode": draw(st.sampled_from(["value", "value", "sigma", "sigma", "zero", "voxel"])),
            "top_fraction": draw(st.floats(0.002, 0.08, allow_nan=False)), "sigma": draw(st.floats(1.2, 3.0, allow_nan=False)),
            "diameter": draw(st.one_of(st.integers(1, 8).map(float), st.floats(1, 8, allow_nan=False), st.sampled_from([0.5, 0.9, 0.99]))),
            "numbering": draw(st.integers(0, 1)), "order": order,
            "list_as": "csv" if order == "zzx" else draw(st.sampled_from(["array", "csv"])),
            "tomo_id": draw(st.integers(1, 500)), "object_id": draw(st.one_of(st.none(), st.integers(1, 50))),
            "angles_dtype": draw(st.sampled_from(["float64", "int32", "float32"])), "offset": draw(st.sampled_from([0.0, 0.0, -0.6, -1.5, -5.0])),
            "scores_as": draw(st.sampled_from(["array", "array", "em", "mrc"])), "angles_as": draw(st.sampled_from(["array", "array", "em", "mrc"]))}


def strategy(tier):
    return st.one_of(dist_case(), peak_case())


def corner_cases(tier):
    yield {"kind": "distance", "seed": 1, "n": 12, "n_groups": 2, "n_centres": 2, "width": 0.8, "d": 2.0, "field": "tomo_id", "metric": "score",
           "keep_greater": True, "chains": 2, "cols_seed": 0, "index": "default", "group_values": [3, 1]}
    yield {"kind": "peaks", "seed": 2, "shape": [14, 12, 10], "bumps": 3, "n_angles": 7, "thr_mode": "value", "top_fraction": 0.03, "sigma": 2.0,
           "diameter": 3.0, "numbering": 1, "order": "zzx", "list_as": "csv", "tomo_id": 17, "object_id": 4, "angles_dtype": "float64"}


def run(case):
    out = Outcome()
    if case["kind"] == "distance":
        run_distance(case, out)
    else:
        run_peaks(case, out)
    return out


def build_distance(case):
    rng = np.random.default_rng(case["seed"])
    n, d = case["n"], case["d"]
    centres = rng.uniform(0, 6 * d + 5, (case["n_centres"], 3))
    pos = centres[rng.integers(0, len(centres), n)] + rng.normal(0, case["width"] * d / 2 + 0.05, (n, 3))
    grp = rng.integers(0, case["n_groups"], n)
    # chains A-B-C: |AB|,|BC| < d <= |AC| with descending quality A > B > C (placed in one group)
    k = 0
    scores = None
    if case["metric"] == "score":
        scores = np.round(rng.uniform(0, 1, n), 2)  # repeated values
    else:
        scores = rng.integers(1, 6, n).astype(float)
    for c in range(case["chains"]):
        if k + 3 > n:
            break
        base = rng.uniform(50, 80, 3) + 20 * c
        u = rng.normal(size=3)
        u /= np.linalg.norm(u)
        step = d * rng.uniform(0.55, 0.95)
        pos[k], pos[k + 1], pos[k + 2] = base, base + u * step, base + u * 2 * step
        grp[k:k + 3] = grp[k]
        hi = [0.99, 0.98, 0.97] if case["keep_greater"] else [0.01, 0.02, 0.03]
        if case["metric"] == "geom2":
            hi = [9.0, 8.0, 7.0] if case["keep_greater"] else [-1.0, 0.0, 0.5]
        scores[k:k + 3] = hi
        k += 3
    # pairs whose distance is d*(1 +- eps): decidable in double precision, wrong if coordinates or distances are
    # rounded to single precision somewhere (tomogram-sized coordinates make the rounding comparable to eps*d)
    for c_ in range(case.get("near_pairs", 0)):
        if k + 2 > n or case.get("int_coords"):
            break
        base = rng.uniform(150, 180, 3) + 30 * c_
        u = rng.normal(size=3)
        u /= np.linalg.norm(u)
        sign = 1 if c_ % 2 == 0 else -1
        pos[k], pos[k + 1] = base, base + u * d * (1 + sign * case["near_eps"])
        grp[k:k + 2] = grp[k]
        scores[k], scores[k + 1] = ((0.96, 0.95) if case["keep_greater"] else (0.04, 0.05)) if case["metric"] == "score" else ((6.5, 6.0) if case["keep_greater"] else (0.6, 0.7))
        k += 2
    pos = pos + case.get("origin", 0.0)
    shift = np.round(rng.uniform(-2, 2, (n, 3)), 3)
    a = np.zeros((n, 20))
    a[:, [IX["x"], IX["y"], IX["z"]]] = pos - shift
    a[:, [IX["shift_x"], IX["shift_y"], IX["shift_z"]]] = shift
    a[:, IX["subtomo_id"]] = rng.permutation(np.arange(1, 2 * n + 1))[:n]
    if case["seed"] % 4 == 0:  # merged lists: particle numbers restart, so they repeat inside a group
        a[:, IX["subtomo_id"]] = rng.integers(1, max(2, n // 2 + 1), n)
    a[:, IX["subtomo_mean"]] = np.arange(n)
    a[:, IX["tomo_id"]] = 1
    a[:, IX["object_id"]] = 1
    a[:, IX["class"]] = 1
    gv = np.array(case["group_values"], float) + case.get("id_base", 0)
    a[:, IX[case["field"]]] = gv[grp]
    a[:, IX[case["metric"]]] = scores
    if case["metric"] != "score":
        a[:, IX["score"]] = rng.uniform(0, 1, n)
    a[:, [IX["phi"], IX["theta"], IX["psi"]]] = rng.uniform(-180, 180, (n, 3))
    if case.get("int_coords"):  # integer lattice positions with integer shifts (tables loaded from integer-typed sources)
        a[:, [IX["x"], IX["y"], IX["z"]]] = np.round(a[:, [IX["x"], IX["y"], IX["z"]]])
        a[:, [IX["shift_x"], IX["shift_y"], IX["shift_z"]]] = np.round(a[:, [IX["shift_x"], IX["shift_y"], IX["shift_z"]]])
    pos_c = a[:, [IX["x"], IX["y"], IX["z"]]] + a[:, [IX["shift_x"], IX["shift_y"], IX["shift_z"]]]
    return a, pos_c


def validity(out, a, pos, keep_tags, case, sig):
    d, f, met = case["d"], case["field"], case["metric"]
    tags_all = list(range(len(a)))
    kept = set(keep_tags)
    for g in np.unique(a[:, IX[f]]):
        idx = [i for i in tags_all if a[i, IX[f]] == g]
        ks = [i for i in idx if i in kept]
        P = pos[ks]
        if len(ks) > 1:
            D = np.linalg.norm(P[:, None, :] - P[None, :, :], axis=2)
            np.fill_diagonal(D, np.inf)
            if D.min() < d:
                i, j = np.unravel_index(np.argmin(D), D.shape)
                out.fail(f"{sig}:survivors_closer_than_d", f"group {g}: rows {ks[i]},{ks[j]} at {D.min():.6f} < d={d}")
                return False
        for i in idx:
            if i in kept:
                continue
            if not ks:
                out.fail(f"{sig}:whole_group_removed", f"group {g}")
                return False
            dist = np.linalg.norm(pos[ks] - pos[i], axis=1)
            sc = a[ks, IX[met]]
            dom = (dist < d) & ((sc >= a[i, IX[met]]) if case["keep_greater"] else (sc <= a[i, IX[met]]))
            if not dom.any():
                near = (dist < d).any()
                out.fail(f"{sig}:removed_without_dominating_survivor" + ("" if near else "_in_range"), f"group {g}: removed row {i} ({met}={a[i, IX[met]]}) has no surviving neighbour within d={d} with an equal or better value")
                return False
    return True


def run_distance(case, out):
    from cryocat import cryomotl

    a, pos = build_distance(case)
    n, d, f = len(a), case["d"], case["field"]
    # tie filter
    for g in np.unique(a[:, IX[f]]):
        P = pos[a[:, IX[f]] == g]
        if len(P) > 1:
            D = np.linalg.norm(P[:, None, :] - P[None, :, :], axis=2)
            if np.any(np.abs(D - d) < 1e-9):
                out.filtered = "distance_tie"
                return
    crng = np.random.default_rng(case["cols_seed"])
    cols = list(C) if case["cols_seed"] % 3 == 0 else [C[j] for j in crng.permutation(20)]
    df = gen.table_df({"cols": cols, "rows": a.tolist(), "bulk": None, "index": case["index"]})
    out.label("distance", f"field:{f}", f"metric:{case['metric']}", "keep_greater" if case["keep_greater"] else "keep_smaller", f"groups:{case['n_groups']}",
              f"index:{case['index']}", "chains" if case["chains"] and n >= 3 else "no_chains")
    if case.get("int_coords"):
        out.label("integer_dtype_coordinates")
        for col in ("x", "y", "z", "shift_x", "shift_y", "shift_z"):
            df[col] = df[col].astype("int64")
    table = df.copy()
    ok, m = call(out, "Motl", lambda: cryomotl.Motl(table))
    if not ok:
        return
    # two live lists built from the same table: cleaning one is not a request to clean the other
    ok, twin = call(out, "Motl", lambda: cryomotl.Motl(table))
    if not ok:
        return
    twin_before = twin.df.copy()
    ok, _ = call(out, "clean_by_distance", lambda: m.clean_by_distance(d, f, metric_id=case["metric"], keep_greater=case["keep_greater"]))
    if not ok:
        return
    out.check(twin.df.equals(twin_before), "distance:cleaning_one_list_changed_another_list_built_from_the_same_table", f"{len(twin.df)} of {len(twin_before)} rows")
    res = m.df
    if not out.check(sorted(res.columns) == sorted(C) and len(res.columns) == 20, "distance:columns", list(res.columns)):
        return
    got = res[C].to_numpy(dtype=float)
    tags = [int(round(v)) for v in got[:, IX["subtomo_mean"]]]
    if not out.check(len(set(tags)) == len(tags) and all(0 <= t < n for t in tags), "distance:row_duplicated_or_invented", tags[:10]):
        return
    if not np.array_equal(got, a[tags]):
        i, j = np.argwhere(got != a[tags])[0]
        out.fail("distance:survivor_field_changed", f"row tag {tags[i]} field {C[j]}")
        return
    if not validity(out, a, pos, tags, case, "distance"):
        return
    # groups never interact: cleaning each group alone gives the same survivors
    for g in np.unique(a[:, IX[f]]):
        sel = a[:, IX[f]] == g
        if sel.all():
            break
        sub = gen.table_df({"cols": list(C), "rows": a[sel].tolist(), "bulk": None, "index": "default"})
        ok, ms = call(out, "Motl", lambda: cryomotl.Motl(sub))
        if not ok:
            return
        ok, _ = call(out, "clean_by_distance", lambda: ms.clean_by_distance(d, f, metric_id=case["metric"], keep_greater=case["keep_greater"]))
        if not ok:
            return
        alone = sorted(int(round(v)) for v in ms.df["subtomo_mean"].to_numpy(dtype=float))
        together = sorted(t for t in tags if a[t, IX[f]] == g)
        if not out.check(alone == together, "distance:groups_interact", f"group {g}: alone {alone[:10]} vs within the full list {together[:10]}"):
            return
    removed = n - len(tags)
    close_pair = False
    if len(tags) > 1:
        P = pos[tags]
        D = np.linalg.norm(P[:, None, :] - P[None, :, :], axis=2)
        np.fill_diagonal(D, np.inf)
        same = a[tags, IX[f]][:, None] == a[tags, IX[f]][None, :]
        close_pair = bool(np.any((D < 2 * d) & same))
    out.nontrivial = removed > 0 and close_pair


def run_peaks(case, out):
    from cryocat import tmana

    rng = np.random.default_rng(case["seed"])
    shape = tuple(case["shape"])
    nvox = int(np.prod(shape))
    scores = (rng.permutation(nvox).astype(float) / nvox).reshape(shape)
    if case["bumps"]:
        I = np.meshgrid(*[np.arange(s) for s in shape], indexing="ij")
        for _ in range(case["bumps"]):
            c = [rng.uniform(0, s - 1) for s in shape]
            w = rng.uniform(1.0, 3.0)
            scores = scores + rng.uniform(0.5, 1.5) * np.exp(-sum((I[k] - c[k]) ** 2 for k in range(3)) / (2 * w * w))
    scores = scores + case.get("offset", 0.0)  # maps with negative scores (zero-mean CC maps): thresholds can be negative
    na = case["n_angles"]
    anglist = np.round(rng.uniform(-180, 180, (na, 3)), 3)  # rows are (phi, theta, psi)
    numbering = case["numbering"]
    amap = (rng.integers(0, na, shape) + numbering).astype(case["angles_dtype"])
    if case["thr_mode"] == "zero":
        # a zero-mean style map cut at exactly 0 (a legal direct threshold like any other number)
        scores = scores - float(np.quantile(scores, 1 - case["top_fraction"]))
        thr = 0.0
        kw = {"scores_threshold": 0.0}
    elif case["thr_mode"] == "voxel":
        # the threshold IS one voxel's score (an order statistic): that voxel does not exceed it and must not be extracted
        thr = float(np.sort(scores, axis=None)[-max(2, int(case["top_fraction"] * nvox))])
        kw = {"scores_threshold": thr}
    elif case["thr_mode"] == "value":
        thr = float(np.quantile(scores, 1 - case["top_fraction"]))
        kw = {"scores_threshold": thr}
    else:
        thr = float(scores.mean() + case["sigma"] * scores.std(ddof=1))
        kw = {"sigma_threshold": case["sigma"]}
    exact = case["thr_mode"] == "voxel" and case.get("scores_as", "array") == "array"  # comparison of identical doubles: decidable
    if not exact and np.any(np.abs(scores - thr) <= 1e-12 * max(1.0, abs(thr))):
        out.filtered = "threshold_tie"
        return
    if exact:
        out.label("threshold_equals_a_voxel_score")
    sup = np.argwhere(scores > thr)
    if len(sup) > 6000:
        out.filtered = "too_many_supra_threshold_voxels"
        return
    D = float(case["diameter"])
    order = case["order"]
    if na > 1000:  # long lists are handed over as arrays (writing and parsing tens of thousands of text lines only costs time)
        case = dict(case, list_as="array", order="zxz")
        order = "zxz"
    if case["list_as"] == "array":
        alist = anglist.copy()
    else:
        arr = anglist if order == "zxz" else anglist[:, [0, 2, 1]]  # file columns for zzx are phi, psi, theta
        with open("angles.csv", "w") as f:
            for r in arr:
                f.write(",".join(repr(float(v)) for v in r) + "\n")
        alist = "angles.csv"
    out.label("peaks", f"thr:{case['thr_mode']}", f"order:{order}", f"list:{case['list_as']}", f"numbering:{numbering}",
              "noncubic" if len(set(shape)) > 1 else "cubic", "integer_diameter" if D == int(D) else "float_diameter")
    keep_s, keep_a = scores.copy(), amap.copy()
    s_arg, a_arg = scores, amap
    s_as, a_as = case.get("scores_as", "array"), case.get("angles_as", "array")
    if s_as != "array":
        # maps handed over as files (written by the harness' own writers); scores are stored as float32, so the map
        # the function sees is the float32 rounding of the generated one
        scores = scores.astype(np.float32).astype(np.float64)
        keep_s = scores.copy()
        if case["thr_mode"] == "sigma":  # the function computes mean and std of the float32 map it reads
            thr = float(scores.mean() + case["sigma"] * scores.std(ddof=1))
        top = scores[scores > thr]  # plateau-freeness matters among the supra-threshold voxels only
        if np.unique(top).size != top.size or np.any(np.abs(scores - thr) <= 1e-5 * max(1.0, abs(thr))):
            out.filtered = "float32_plateau_or_threshold_tie"
            return
        (oracle.em_write if s_as == "em" else oracle.mrc_write)("scores." + s_as, scores.astype(np.float32))
        s_arg = "scores." + s_as
        sup = np.argwhere(scores > thr)
    if a_as != "array":
        (oracle.em_write if a_as == "em" else oracle.mrc_write)("angles." + a_as, amap.astype(np.float32))
        a_arg = "angles." + a_as
    out.label(f"scores_as:{s_as}", f"angles_as:{a_as}")
    ok, m = call(out, "scores_extract_particles", lambda: tmana.scores_extract_particles(
        s_arg, a_arg, alist, case["tomo_id"], D, object_id=case["object_id"], angles_order=order, angles_numbering=numbering, **kw))
    if not ok:
        return
    out.check(np.array_equal(scores, keep_s) and np.array_equal(amap, keep_a), "peaks:input_map_modified", "")
    if case["list_as"] == "csv" and m is not None:
        # the same list path is used again with the other column order: the answer must follow the file, not an earlier call
        other = "zzx" if order == "zxz" else "zxz"
        arr2 = anglist if other == "zxz" else anglist[:, [0, 2, 1]]
        with open("angles.csv", "w") as f2:
            for r_ in arr2:
                f2.write(",".join(repr(float(v_)) for v_ in r_) + "\n")
        ok2, m2 = call(out, "scores_extract_particles", lambda: tmana.scores_extract_particles(
            scores, amap, "angles.csv", case["tomo_id"], D, object_id=case["object_id"], angles_order=other, angles_numbering=numbering, **kw))
        if ok2 and m2 is not None:
            out.check(m2.df[["phi", "theta", "psi", "x", "y", "z"]].equals(m.df[["phi", "theta", "psi", "x", "y", "z"]]), "peaks:result_depends_on_earlier_call_with_same_list_path", "")
    if len(sup) == 0:
        out.check(m is None or len(m.df) == 0, "peaks:peaks_without_supra_threshold_voxel", "")
        return
    if not out.check(m is not None and len(m.df) > 0, "peaks:no_peaks_although_voxels_exceed_threshold", f"{len(sup)} voxels above {thr}"):
        return
    df = m.df
    xyz = df[["x", "y", "z"]].to_numpy(dtype=float)
    if not out.check(bool(np.all(xyz == np.round(xyz))) and bool(np.all(df[["shift_x", "shift_y", "shift_z"]].to_numpy() == 0)), "peaks:position_not_integer_voxel", ""):
        return
    v = (xyz - 1).astype(int)
    inside = np.all((v >= 0) & (v < np.array(shape)), axis=1)
    if not out.check(bool(inside.all()), "peaks:position_outside_map_or_not_1_based", lambda: f"{xyz[~inside][:3].tolist()} for shape {shape}"):
        return
    ps = scores[v[:, 0], v[:, 1], v[:, 2]]
    got_s = df["score"].to_numpy(dtype=float)
    if not out.check(np.array_equal(got_s, ps), "peaks:score_not_map_value_at_1_based_position", lambda: f"{got_s[:3]} vs {ps[:3]}"):
        return
    out.check(bool(np.all(ps > thr)), "peaks:peak_not_above_threshold", lambda: f"{ps.min()} vs {thr}")
    out.check(len({tuple(r) for r in v.tolist()}) == len(v), "peaks:peak_twice", "")
    if len(v) > 1:
        d2 = ((v[:, None, :] - v[None, :, :]) ** 2).sum(axis=2).astype(float)
        np.fill_diagonal(d2, np.inf)
        if d2.min() <= D * D:
            i, j = np.unravel_index(np.argmin(d2), d2.shape)
            out.fail("peaks:peaks_not_farther_apart_than_diameter", f"{v[i].tolist()} and {v[j].tolist()}: distance^2 {d2.min()} <= {D * D}")
            return
    # domination of every supra-threshold voxel
    sv = scores[sup[:, 0], sup[:, 1], sup[:, 2]]
    for s0 in range(0, len(sup), 1500):
        blk = sup[s0:s0 + 1500]
        dd = ((blk[:, None, :] - v[None, :, :]) ** 2).sum(axis=2)
        okm = (dd <= D * D) & (ps[None, :] >= sv[s0:s0 + 1500, None])
        bad = ~okm.any(axis=1)
        if bad.any():
            b = blk[np.argmax(bad)]
            out.fail("peaks:supra_threshold_voxel_not_dominated", f"voxel {b.tolist()} score {scores[tuple(b)]:.6f} has no peak within {D} with an equal or higher score ({len(v)} peaks)")
            return
    idx = amap[v[:, 0], v[:, 1], v[:, 2]].astype(int) - numbering
    want = anglist[idx]
    got_a = df[["phi", "theta", "psi"]].to_numpy(dtype=float)
    if not np.array_equal(got_a, want):
        i = int(np.argmax(np.abs(got_a - want).max(axis=1)))
        other = [k for k in range(na) if np.array_equal(got_a[i], anglist[k])]
        perm = np.array_equal(np.sort(got_a[i]), np.sort(want[i]))
        out.fail("peaks:angles_" + ("components_permuted" if perm else ("of_another_list_row" if other else "not_in_list")), f"peak {v[i].tolist()}: {got_a[i].tolist()} vs row {idx[i]} {want[i].tolist()}")
        return
    out.check(bool(np.all(df["tomo_id"].to_numpy() == case["tomo_id"])), "peaks:tomo_id", "")
    if case["object_id"] is not None:  # the documented parameter; the default numbering of objects and classes is not part of the statement
        out.check(bool(np.all(df["object_id"].to_numpy() == case["object_id"])), "peaks:object_id", "")
    sid_ = df["subtomo_id"].to_numpy(dtype=float)
    out.check(len(set(sid_.tolist())) == len(sid_), "peaks:subtomo_ids_not_unique", "")
    out.nontrivial = len(v) >= 2 and len(sup) > len(v)
    if case["seed"] % 3 == 0 and not out.violations and case["list_as"] == "array":  # (the list file was rewritten above)
        # the same request with an output file: the same list, and the file holds it
        out.label("peaks:output_file")
        ok5, m5 = call(out, "scores_extract_particles(output_path)", lambda: tmana.scores_extract_particles(
            s_arg, a_arg, alist, case["tomo_id"], D, object_id=case["object_id"], angles_order=order, angles_numbering=numbering, output_path="peaks.em", **kw))
        if ok5 and m5 is not None:
            out.check(m5.df.equals(df), "peaks:result_changes_with_output_path", "")
            bad = oracle.em_motl_mismatch("peaks.em", df)
            out.check(bad is None, f"peaks:output_file_{bad}", "")


# rejected calls that run before every case (vlib/faults.py): nothing they leave behind - module state, library options,
# stray files - may make the valid calls of the case violate the statement
from vlib import faults as _faults  # noqa: E402

fault_calls = _faults.for_property(ID)
