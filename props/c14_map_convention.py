"""C14 - map rotation, placement, windowing and symmetrisation share one active convention."""
import math

import numpy as np
from hypothesis import strategies as st

from vlib import gen, oracle
from vlib.runner import Outcome, call

ID = "C14"
RULE = (
    "Five generated families. (cube) one of the 24 cube rotations x a box with independent sizes 5..12 (odd, even, "
    "non-cubic) of PRNG voxels: for EVERY input voxel at least one voxel away from every face whose image c + R(v-c), "
    "c = floor(N/2), lies in the box, out[image] == in[v] (1e-9) - through rotation_angles (zxz angles computed by the "
    "harness), through rotation=R with transpose_rotation=True, and rotation=R without transpose must equal the "
    "rotation by R^-1. (blob) random rotations of smooth compactly supported blobs (boxes 16..32, every rotated copy "
    "inside the box): rotating by R then R^-1 restores the map (NCC > 0.99), total density preserved (1e-3), centre of "
    "mass moves to c + R(com - c) within 0.05 voxel. (window) volumes up to 24^3, even window sizes, centres inside / "
    "straddling a face / fully outside: shape == window, voxel == volume voxel or the volume mean; crop == clipped "
    "window. (place) particle lists of 1..20 poses (cube rotations for exact checks, random rotations compositionally) "
    "with integral complete positions split arbitrarily into x and shift, templates with >= 1 voxel margin, colouring "
    "field object_id/class/geom1, empty or pre-filled volume, non-default row labels: container == sequential "
    "stamping of the rotated thresholded template at the 0-based complete position with the colour value, clipped. "
    "(symm) n in 2..12 as int/'Cn'/'cn' on smooth blobs on or off the axis: result == mean of the n copies rotated by "
    "360k/n about z computed with an independent map_coordinates reference (1e-6), invariant under rotation by 360/n "
    "(NCC > 0.999), same total density (1e-3). Non-trivial: non-cubic box (cube); rotation angle in (10,170) degrees "
    "(blob); window partly outside; >= 2 overlapping stamps; n not in {2,4}."
)
ASSUMPTIONS = [
    "face voxels of the input are excluded from the exact permutation check (they can fall outside the interpolation domain by rounding), as stated in the property",
    "templates for placement are even-sized cubes with a one-voxel empty margin; complete positions are integers",
    "the symmetrisation reference uses scipy.ndimage.map_coordinates (order 3) directly, not cryoCAT's rotate nor affine_transform",
]
BUDGET = {"quick": {"examples": 2500, "seconds": 85}, "thorough": {"examples": 5000, "seconds": 540}}
EXHAUSTIVE = "all 24 cube rotations x 12 box shapes (odd, even, non-cubic) x all interior voxels, through all three call forms"

CUBES = oracle.cube_rotations()
bsize = st.integers(5, 12)


@st.composite
def cube_case(draw):
    return {"kind": "cube", "rot": draw(st.integers(0, 23)), "shape": [draw(bsize), draw(bsize), draw(bsize)], "seed": draw(st.integers(0, 2**31 - 1))}


@st.composite
def blob_case(draw):
    n = draw(st.integers(16, 32))
    shape = [n, draw(st.integers(16, 32)), draw(st.integers(16, 32))] if draw(st.booleans()) else [n, n, n]
    return {"kind": "blob", "shape": shape, "seed": draw(st.integers(0, 2**31 - 1)), "angles": draw(gen.euler()), "nblobs": draw(st.integers(1, 4))}


@st.composite
def window_case(draw):
    shape = [draw(st.integers(2, 24)), draw(st.integers(2, 24)), draw(st.integers(2, 24))]
    if draw(st.integers(0, 11)) == 0:  # tomogram-sized volumes (0.5 to 1 million voxels): anything that depends on the volume's size
        shape = [draw(st.integers(80, 100)), draw(st.integers(80, 100)), draw(st.integers(80, 100))]
    size = [2 * draw(st.integers(1, 8)) for _ in range(3)]
    if draw(st.booleans()):
        size = [size[0]] * 3
    centre = [draw(st.one_of(st.integers(0, shape[a] - 1), st.integers(-12, shape[a] + 12))) for a in range(3)]
    return {"kind": "window", "shape": shape, "size": size, "centre": centre, "seed": draw(st.integers(0, 2**31 - 1)), "size_as": draw(st.sampled_from(["list", "array", "tuple"]))}


@st.composite
def place_case(draw):
    s = draw(st.sampled_from([6, 8, 10]))  # even templates only: for odd boxes the window start is not pinned by the statement
    n = draw(st.integers(1, 20))
    fractional = draw(st.integers(0, 3)) == 0
    vol = [draw(st.integers(12, 40)), draw(st.integers(12, 40)), draw(st.integers(12, 40))]
    parts = []
    for i in range(n):
        exact = draw(st.integers(0, 3)) > 0
        parts.append({"pos": [draw(st.integers(-3, vol[a] + 4)) for a in range(3)], "shift": [draw(st.integers(-6, 6)) / 2.0 for a in range(3)],
                      "rot": draw(st.integers(0, 23)) if exact else draw(gen.euler()),
                      "color": draw(st.integers(1, 9)), "cls": draw(st.integers(1, 4)), "g": draw(st.integers(1, 30)) / 2.0,
                      "tomo": draw(st.sampled_from([1, 1, 2, 5])), "frac": [draw(st.sampled_from([0.0, 0.25, 0.5, 0.7])) for a in range(3)] if fractional else [0.0, 0.0, 0.0]})
    return {"kind": "place", "tsize": s, "tseed": draw(st.integers(0, 2**31 - 1)), "vol": vol, "parts": parts, "feature": draw(st.sampled_from(["object_id", "class", "geom1"])),
            "prefilled": draw(st.booleans()), "index": draw(st.sampled_from(["default", "default", "reversed", "offset", "repeated"])), "cluster": draw(st.booleans()),
            "template_list": draw(st.integers(0, 5)) == 0}


@st.composite
def symm_case(draw):
    n = draw(st.integers(16, 30))
    return {"kind": "symm", "n": draw(st.integers(2, 12)), "spelling": draw(st.sampled_from(["int", "C", "c"])), "shape": [n, n, draw(st.integers(12, 24))],
            "seed": draw(st.integers(0, 2**31 - 1)), "nblobs": draw(st.integers(1, 3)), "on_axis": draw(st.booleans())}


def strategy(tier):
    return st.one_of(cube_case(), cube_case(), blob_case(), window_case(), window_case(), place_case(), place_case(), symm_case())


def corner_cases(tier):
    shapes = [[7, 7, 7], [8, 8, 8], [6, 9, 11]] if tier == "quick" else [[5, 5, 5], [6, 6, 6], [7, 7, 7], [8, 8, 8], [9, 9, 9], [10, 10, 10], [12, 12, 12], [6, 9, 11], [5, 8, 8], [12, 7, 10], [8, 5, 6], [11, 11, 6]]
    for sh in shapes:
        for r in range(24):
            yield {"kind": "cube", "rot": r, "shape": sh, "seed": r + 1}
    for n in (3, 5, 7, 12):
        yield {"kind": "symm", "n": n, "spelling": "C", "shape": [24, 24, 16], "seed": n, "nblobs": 2, "on_axis": False}


def run(case):
    out = Outcome()
    {"cube": run_cube, "blob": run_blob, "window": run_window, "place": run_place, "symm": run_symm}[case["kind"]](case, out)
    return out


# ---------------------------------------------------------------------------------------------- (a) cube rotations
def permute_exact(vol, R):
    """active rotation by an integer matrix about c = shape//2; returns (expected, known mask) for interior input voxels."""
    shape = np.array(vol.shape)
    c = shape // 2
    exp = np.zeros(vol.shape)
    known = np.zeros(vol.shape, bool)
    idx = np.argwhere(np.ones(vol.shape, bool))
    interior = np.all((idx >= 1) & (idx <= shape - 2), axis=1)
    src = idx[interior]
    img = (src - c) @ R.T + c
    ok = np.all((img >= 0) & (img < shape), axis=1)
    s, t = src[ok], img[ok]
    exp[t[:, 0], t[:, 1], t[:, 2]] = vol[s[:, 0], s[:, 1], s[:, 2]]
    known[t[:, 0], t[:, 1], t[:, 2]] = True
    return exp, known


def run_cube(c, out):
    from cryocat import cryomap
    from scipy.spatial.transform import Rotation as srot

    R = CUBES[c["rot"]]
    shape = tuple(c["shape"])
    vol = np.random.default_rng(c["seed"]).normal(0, 1, shape)
    keep = vol.copy()
    out.label("cube", "noncubic" if len(set(shape)) > 1 else ("even" if shape[0] % 2 == 0 else "odd"))
    out.nontrivial = len(set(shape)) > 1
    exp, known = permute_exact(vol, R)
    ang = oracle.matrix_to_zxz(R.astype(float))
    forms = [("rotation_angles", lambda: cryomap.rotate(vol, rotation_angles=list(ang))),
             ("rotation_transposed", lambda: cryomap.rotate(vol, rotation=srot.from_matrix(R.astype(float)), transpose_rotation=True))]
    for name, fn in forms:
        ok, r = call(out, f"rotate:{name}", fn)
        if not ok:
            return
        if not out.check(r.shape == shape, f"cube:{name}:shape", r.shape):
            return
        err = np.abs(r - exp)[known]
        if err.size and err.max() > 1e-9 * max(1.0, np.abs(vol).max()):
            # what did it do instead? inverse rotation, or rotation about another centre?
            inv, kinv = permute_exact(vol, R.T)
            both = known & kinv
            is_inv = both.any() and np.abs(r - inv)[both].max() <= 1e-9 and not np.array_equal(R, R.T)
            out.fail(f"cube:{name}:" + ("rotated_by_the_inverse" if is_inv else "voxels_not_moved_to_R_v_about_floor_half"), f"rotation #{c['rot']} box {shape}: max error {err.max():.3e} over {int(known.sum())} voxels")
            return
    ok, r = call(out, "rotate:rotation_not_transposed", lambda: cryomap.rotate(vol, rotation=srot.from_matrix(R.astype(float)), transpose_rotation=False))
    if ok:
        inv, kinv = permute_exact(vol, R.T)
        err = np.abs(r - inv)[kinv]
        out.check(not err.size or err.max() <= 1e-9 * max(1.0, np.abs(vol).max()), "cube:rotation_without_transpose_not_the_inverse", f"rotation #{c['rot']} box {shape}")
    out.check(np.array_equal(vol, keep), "cube:input_modified", "")
    # the same angles on a box of another size right afterwards: nothing of the first call may be remembered
    shape2 = tuple(n_ + 1 + (i_ % 2) for i_, n_ in enumerate(shape))
    vol2 = np.random.default_rng(c["seed"] + 1).normal(0, 1, shape2)
    exp2, known2 = permute_exact(vol2, R)
    ok, r2 = call(out, "rotate:rotation_angles", lambda: cryomap.rotate(vol2, rotation_angles=list(ang)))
    if ok and r2.shape == shape2:
        err2 = np.abs(r2 - exp2)[known2]
        out.check(not err2.size or err2.max() <= 1e-9 * max(1.0, np.abs(vol2).max()), "cube:second_box_size_rotated_about_the_first_boxs_centre", f"boxes {shape} then {shape2}")


# ---------------------------------------------------------------------------------------------- (b) blobs
def make_blobs(shape, seed, nblobs, on_axis=False, axis_margin=False):
    rng = np.random.default_rng(seed)
    shape = np.array(shape)
    c = shape // 2
    I = np.meshgrid(*[np.arange(n) for n in shape], indexing="ij")
    vol = np.zeros(tuple(shape))
    rmax = shape.min() / 2 - 1
    for b in range(nblobs):
        sig = rng.uniform(1.2, 2.2)
        room = rmax - 4 * sig
        if room <= 0.5:
            sig = (rmax - 0.5) / 4
            room = 0.5
        off = rng.normal(size=3)
        off *= rng.uniform(0, room) / np.linalg.norm(off)
        if on_axis and b == 0:
            off[:2] = 0
        ctr = c + off
        d2 = sum((I[a] - ctr[a]) ** 2 for a in range(3))
        g = np.exp(-d2 / (2 * sig * sig)) * rng.uniform(0.5, 2.0)
        g[d2 > (4 * sig) ** 2] = 0.0
        vol += g
    return vol


def ncc(a, b):
    a = a - a.mean()
    b = b - b.mean()
    return float((a * b).sum() / math.sqrt((a * a).sum() * (b * b).sum()))


def com(v):
    I = np.meshgrid(*[np.arange(n) for n in v.shape], indexing="ij")
    s = v.sum()
    return np.array([(I[a] * v).sum() / s for a in range(3)])


def run_blob(c, out):
    from cryocat import cryomap
    from scipy.spatial.transform import Rotation as srot

    shape = tuple(c["shape"])
    vol = make_blobs(shape, c["seed"], c["nblobs"])
    R = oracle.R_cc(*c["angles"])
    angle = oracle.rot_angle_deg(R)
    out.label("blob", "cubic" if len(set(shape)) == 1 else "noncubic")
    out.nontrivial = 10 < angle < 170
    ok, r = call(out, "rotate", lambda: cryomap.rotate(vol, rotation_angles=list(c["angles"])))
    if not ok:
        return
    tot = vol.sum()
    out.check(abs(r.sum() - tot) <= 1e-3 * tot, "blob:density_not_preserved", f"{r.sum()} vs {tot}")
    ctr = np.array(shape) // 2
    want = ctr + R @ (com(vol) - ctr)
    got = com(r)
    if np.abs(got - want).max() > 0.05:
        inv = ctr + R.T @ (com(vol) - ctr)
        out.fail("blob:centre_of_mass_" + ("moved_by_inverse_rotation" if np.abs(got - inv).max() <= 0.05 and angle > 5 else "not_at_c_plus_R_offset"), f"got {got.round(3).tolist()} expected {want.round(3).tolist()} (angle {angle:.1f})")
        return
    ok, back = call(out, "rotate", lambda: cryomap.rotate(r, rotation=srot.from_matrix(R), transpose_rotation=False))
    if ok:
        v = ncc(back, vol)
        out.check(v > 0.99, "blob:inverse_rotation_does_not_restore", f"NCC {v:.5f}")
    # the particle side of the same convention: a particle with these angles carries the reference offset of the blob
    # to the place where rotating the reference map by the same angles put the blob
    import pandas as pd
    from cryocat import cryomotl

    off = com(vol) - ctr
    rows = np.zeros((2, 20))
    C_ = oracle.MOTL_COLUMNS
    rows[:, C_.index("subtomo_id")] = [1, 2]
    rows[:, C_.index("tomo_id")] = 1
    rows[0, [C_.index("x"), C_.index("y"), C_.index("z")]] = [100.0, 120.0, 80.0]
    rows[1, [C_.index("x"), C_.index("y"), C_.index("z")]] = [10.0, 20.0, 30.0]
    rows[0, [C_.index("phi"), C_.index("theta"), C_.index("psi")]] = list(c["angles"])
    ok, m_ = call(out, "Motl", lambda: cryomotl.Motl(pd.DataFrame(rows, columns=C_)))
    if ok:
        before = m_.get_coordinates().copy()
        ok, _ = call(out, "shift_positions", lambda: m_.shift_positions(off.tolist()))
        if ok:
            moved = np.asarray(m_.get_coordinates(), float) - before
            if out.check(moved.shape == (2, 3), "convention:get_coordinates_shape", moved.shape):
                out.check(np.abs(moved[0] - R @ off).max() <= 1e-9 * max(1.0, np.abs(off).max()), "convention:particle_offset_not_R_times_reference_offset", lambda: f"{moved[0].tolist()} vs {(R @ off).tolist()}")
                out.check(np.abs(moved[0] - (got - ctr)).max() <= 0.06, "convention:particle_and_map_rotation_disagree", lambda: f"particle moved by {moved[0].round(3).tolist()}, blob by {(got - ctr).round(3).tolist()}")
                out.check(np.abs(moved[1] - off).max() <= 1e-9 * max(1.0, np.abs(off).max()), "convention:unrotated_particle_offset_changed", lambda: f"{moved[1].tolist()} vs {off.tolist()}")


# ---------------------------------------------------------------------------------------------- (c) windows
def run_window(c, out):
    from cryocat import cryomap

    shape, size, ctr = tuple(c["shape"]), list(c["size"]), np.array(c["centre"])
    vol = np.random.default_rng(c["seed"]).normal(5, 2, shape)
    if c["seed"] % 4 == 0:  # integer-typed volumes (raw tomograms, label maps): the fill value is still their (fractional) mean
        vol = np.round(vol * 7).astype([np.int16, np.uint8, np.int32][c["seed"] % 12 // 4]) if c["seed"] % 12 // 4 != 1 else np.clip(np.round(vol * 7), 0, 255).astype(np.uint8)
        out.label(f"window:integer_volume:{vol.dtype}")
    mean = vol.mean()
    start = ctr - np.array(size) // 2
    exp = np.full(size, mean)
    inside = 0
    for a in range(size[0]):
        for b in range(size[1]):
            for d in range(size[2]):
                p = start + (a, b, d)
                if np.all(p >= 0) and np.all(p < shape):
                    exp[a, b, d] = vol[tuple(p)]
                    inside += 1
    total = int(np.prod(size))
    where = "inside" if inside == total else ("outside" if inside == 0 else "partly")
    out.label("window", f"window:{where}")
    out.nontrivial = where == "partly"
    sz = {"list": list(size), "array": np.array(size), "tuple": tuple(size)}[c["size_as"]]
    ok, r = call(out, "extract_subvolume", lambda: cryomap.extract_subvolume(vol, ctr.copy(), sz))
    if ok:
        if out.check(tuple(r.shape) == tuple(size), "window:shape", f"{r.shape} vs {size}"):
            if not np.allclose(r, exp, rtol=0, atol=1e-12):
                bad = np.argwhere(~np.isclose(r, exp, rtol=0, atol=1e-12))[0]
                p = start + bad
                ins = bool(np.all(p >= 0) and np.all(p < shape))
                fill0 = (not ins) and r[tuple(bad)] == 0
                out.fail("window:" + ("fill_value_not_volume_mean" if not ins else "voxel_not_from_requested_position") + ("_zero" if fill0 else ""), f"window voxel {bad.tolist()} (volume position {p.tolist()}): {r[tuple(bad)]!r} vs {exp[tuple(bad)]!r}")
    if ok:
        # two live arrays: a window that is edited in place must not take the volume (and with it every other window) along
        vol0 = vol.copy()
        ok2, r_edit = call(out, "extract_subvolume", lambda: cryomap.extract_subvolume(vol, ctr.copy(), sz))
        if ok2:
            _faults.scribble(r_edit)
            if not out.check(np.array_equal(vol, vol0), "window:editing_the_returned_window_changed_the_volume", f"window:{where}"):
                return out
    # the same window written to a file (single precision, same axis order) and the documented enforce_shape form
    # (result of the volume's shape: the part of the window inside the volume keeps its voxels, everything else the mean)
    if ok and c["seed"] % 3 == 0:
        from vlib import oracle as _o
        out.label("window:output_file")
        okf, rf = call(out, "extract_subvolume(output_file)", lambda: cryomap.extract_subvolume(vol, ctr.copy(), sz, output_file="win.mrc"))
        if okf:
            out.check(np.array_equal(rf, r), "window:result_changes_with_output_file", "")
            try:
                fl = _o.mrc_read("win.mrc")
                out.check(tuple(fl["dims"]) == tuple(size) and np.array_equal(fl["data"], r.astype(np.float32)), "window:output_file_does_not_hold_the_window", f"{fl['dims']}")
            except Exception as e:
                out.fail("window:output_file_unreadable", repr(e))
    lo_, hi_ = np.clip(start, 0, shape), np.clip(start + size, 0, shape)
    oke, re_ = call(out, "extract_subvolume(enforce_shape)", lambda: cryomap.extract_subvolume(vol, ctr.copy(), sz, enforce_shape=True))
    if oke:
        want_e = np.full(shape, mean)
        if np.all(hi_ > lo_):
            want_e[lo_[0]:hi_[0], lo_[1]:hi_[1], lo_[2]:hi_[2]] = vol[lo_[0]:hi_[0], lo_[1]:hi_[1], lo_[2]:hi_[2]]
        out.check(tuple(re_.shape) == tuple(shape) and np.allclose(re_, want_e, rtol=0, atol=1e-12), "window:enforce_shape_not_volume_with_mean_outside_window", f"{re_.shape}")
    # crop without a position is the window around the volume centre floor(N/2)
    okc, cc = call(out, "crop(default centre)", lambda: cryomap.crop(vol, list(size)))
    if okc:
        st_c = np.array(shape) // 2 - np.array(size) // 2
        lo_c, hi_c = np.clip(st_c, 0, shape), np.clip(st_c + size, 0, shape)
        want_c = vol[lo_c[0]:hi_c[0], lo_c[1]:hi_c[1], lo_c[2]:hi_c[2]]
        out.check(cc.shape == want_c.shape and np.array_equal(cc, want_c), "crop:default_not_centred_window", f"{cc.shape} vs {want_c.shape}")
    # crop: the same window clipped to the volume
    lo = np.clip(start, 0, shape)
    hi = np.clip(start + size, 0, shape)
    ok, cr = call(out, "crop", lambda: cryomap.crop(vol, list(size), crop_coord=[int(v) for v in ctr]))
    if ok:
        want = vol[lo[0]:hi[0], lo[1]:hi[1], lo[2]:hi[2]]
        out.check(cr.shape == want.shape and np.array_equal(cr, want), "crop:not_clipped_window", f"{cr.shape} vs {want.shape}")


# ---------------------------------------------------------------------------------------------- (d) placement
def template(s, seed):
    rng = np.random.default_rng(seed)
    t = np.zeros((s, s, s))
    inner = (rng.random((s - 2, s - 2, s - 2)) < 0.45).astype(float)
    inner[(s - 2) // 2, (s - 2) // 2, (s - 2) // 2] = 1.0
    if seed % 2:  # grey-valued template (density map): values on both sides of the 0.1 threshold, none close to it
        inner = inner * rng.choice([0.3, 0.6, 1.0], inner.shape) + (1 - inner) * rng.choice([0.0, 0.02, 0.05], inner.shape)
    t[1:-1, 1:-1, 1:-1] = inner
    return t


def stamp(container, obj, pos0, color):
    """obj (cube of even size s) stamped so that object index s/2 lands on container index pos0 (integer); clipped."""
    s = obj.shape[0]
    start = np.array(pos0) - s // 2
    for a, b, d in np.argwhere(obj == 1.0):
        p = start + (a, b, d)
        if np.all(p >= 0) and np.all(p < container.shape):
            container[tuple(p)] = color


def run_place(c, out):
    import pandas as pd
    from cryocat import cryomap, cryomotl
    from scipy.spatial.transform import Rotation as srot

    s = c["tsize"]
    tpl = template(s, c["tseed"])
    vol = tuple(c["vol"])
    parts = c["parts"]
    if c["cluster"] and len(parts) > 1:  # pull everything close to the first particle so that stamps overlap
        base = parts[0]["pos"]
        parts = [dict(p, pos=[base[a] + (p["pos"][a] % 5) - 2 for a in range(3)]) for p in parts]
    ident = next(i_ for i_, M_ in enumerate(CUBES) if np.array_equal(M_, np.eye(3, dtype=int)))
    if c["tseed"] % 3 == 0:  # an unrotated particle first, general orientations after it
        parts = [dict(parts[0], rot=ident)] + list(parts[1:])
    n = len(parts)
    C = oracle.MOTL_COLUMNS
    a = np.zeros((n, 20))
    for i, p in enumerate(parts):
        tot = np.array(p["pos"], float) + 1.0  # 1-based complete position
        a[i, [C.index("x"), C.index("y"), C.index("z")]] = tot - np.array(p["shift"])
        a[i, [C.index("shift_x"), C.index("shift_y"), C.index("shift_z")]] = np.array(p["shift"]) + np.array(p.get("frac", [0.0, 0.0, 0.0]))
        ang = oracle.matrix_to_zxz(CUBES[p["rot"]].astype(float)) if isinstance(p["rot"], int) else p["rot"]
        a[i, [C.index("phi"), C.index("theta"), C.index("psi")]] = ang
        a[i, C.index("subtomo_id")] = i + 1
        a[i, C.index("tomo_id")] = p.get("tomo", 1)  # placement does not look at the tomogram number: lists may interleave several
        a[i, C.index("object_id")], a[i, C.index("class")], a[i, C.index("geom1")] = p["color"], p["cls"], p["g"]
    df = gen.table_df({"cols": C, "rows": a.tolist(), "bulk": None, "index": c["index"]})
    feat = c["feature"]
    colors = a[:, C.index(feat)]
    prefill = None
    if c["prefilled"]:
        prefill = np.random.default_rng(c["tseed"] + 1).integers(20, 25, vol).astype(float)
    out.label("place", f"feature:{feat}", f"index:{c['index']}", "prefilled" if c["prefilled"] else "empty_volume", "template_list" if c["template_list"] else "one_template")
    ok, m = call(out, "Motl", lambda: cryomotl.Motl(df))
    if not ok:
        return
    exp = prefill.copy() if prefill is not None else np.zeros(vol)
    cover = np.zeros(vol, int)
    any_random = False
    for i, p in enumerate(parts):
        if isinstance(p["rot"], int):
            R = CUBES[p["rot"]]
            rt, known = permute_exact(tpl, R)
            obj = (rt > 0.1).astype(float)
        else:
            any_random = True
            ok, rt = call(out, "rotate", lambda: cryomap.rotate(tpl, rotation=srot.from_matrix(oracle.R_cc(*p["rot"])), transpose_rotation=True))
            if not ok:
                return
            obj = (rt > 0.1).astype(float)
        before = exp.copy()
        stamp(exp, obj, p["pos"], colors[i])
        cover += (exp != before) | ((obj.sum() > 0) & False)
        tmp = np.zeros(vol)
        stamp(tmp, obj, p["pos"], 1.0)
        cover += (tmp > 0).astype(int)
    out.nontrivial = bool((cover >= 3).any()) or bool(((cover >= 2)).sum() > 0 and n >= 2)
    tl_arg = [tpl.copy() for _ in range(n)] if c["template_list"] else tpl.copy()
    tpl_keep = tpl.copy()
    kw = {"feature_to_color": feat}
    if prefill is not None:
        kw["volume"] = prefill.copy()
    else:
        kw["volume_shape"] = vol
    ok, r = call(out, "place_object", lambda: cryomap.place_object(tl_arg, m, **kw))
    if not ok:
        return
    if not out.check(tuple(r.shape) == vol, "place:shape", r.shape):
        return
    if not c["template_list"]:
        out.check(np.array_equal(tl_arg, tpl_keep), "place:template_argument_modified", "")
    fractional = any(f != 0 for p in parts for f in p.get("frac", [0.0]))
    if len({p.get("tomo", 1) for p in parts}) > 1:
        out.label("place:several_tomograms")
    if fractional:
        # positions between voxels: the statement does not say which neighbour receives the template centre; both usual
        # conventions (the voxel containing the position, the nearest voxel) are accepted, anything else is a displacement
        out.label("place:fractional_positions")
        exp_round = prefill.copy() if prefill is not None else np.zeros(vol)
        for i, p in enumerate(parts):
            obj_i = (permute_exact(tpl, CUBES[p["rot"]])[0] > 0.1).astype(float) if isinstance(p["rot"], int) else \
                (cryomap.rotate(tpl, rotation=srot.from_matrix(oracle.R_cc(*p["rot"])), transpose_rotation=True) > 0.1).astype(float)
            stamp(exp_round, obj_i, [p["pos"][a_] + (1 if p["frac"][a_] >= 0.5 else 0) for a_ in range(3)], colors[i])
        if not (np.array_equal(r, exp) or np.array_equal(r, exp_round)):
            out.fail("place:fractional_position_not_stamped_on_containing_or_nearest_voxel", f"{int((r != exp).sum())} voxels differ from the containing-voxel stamp, {int((r != exp_round).sum())} from the nearest-voxel stamp")
        return
    if not np.array_equal(r, exp):
        diff = np.argwhere(r != exp)
        vals_r = set(np.unique(r[r != exp]).tolist())
        # classification: stamped one voxel off / without shift / wrong colours?
        def variant(off, use_shift=True, col=None):
            e = prefill.copy() if prefill is not None else np.zeros(vol)
            for i, p in enumerate(parts):
                if isinstance(p["rot"], int):
                    obj = (permute_exact(tpl, CUBES[p["rot"]])[0] > 0.1).astype(float)
                else:
                    obj = (cryomap.rotate(tpl, rotation=srot.from_matrix(oracle.R_cc(*p["rot"])), transpose_rotation=True) > 0.1).astype(float)
                pos = np.array(p["pos"]) + off if use_shift else np.floor(np.array(p["pos"]) - np.array(p["shift"]) + off).astype(int)
                stamp(e, obj, pos, (col if col is not None else colors)[i])
            return e
        kind = "differs"
        if np.array_equal(r, variant(1)):
            kind = "not_converted_to_0_based"
        elif np.array_equal(r, variant(0, use_shift=False)):
            kind = "shift_ignored"
        elif np.array_equal(r > 0, exp > 0) and prefill is None:
            kind = "colour_values"
        out.fail(f"place:{kind}" + (":exact_rotations" if not any_random else ""), f"{len(diff)} voxels differ, first {diff[0].tolist()}: {r[tuple(diff[0])]} vs {exp[tuple(diff[0])]}")


# ---------------------------------------------------------------------------------------------- (e) symmetrisation
def ref_rotate_z(vol, deg):
    from scipy.ndimage import map_coordinates

    shape = np.array(vol.shape)
    c = shape // 2
    I = np.meshgrid(*[np.arange(n) for n in shape], indexing="ij")
    a = math.radians(deg)
    x, y = I[0] - c[0], I[1] - c[1]
    # active rotation by +deg about z: out(o) = in(Rz(-deg) o)
    xs = math.cos(a) * x + math.sin(a) * y + c[0]
    ys = -math.sin(a) * x + math.cos(a) * y + c[1]
    return map_coordinates(vol, [xs, ys, I[2].astype(float)], order=3, mode="constant", cval=0.0)


def run_symm(c, out):
    from cryocat import cryomap

    n = c["n"]
    shape = tuple(c["shape"])
    vol = make_blobs(shape, c["seed"], c["nblobs"], on_axis=c["on_axis"])
    sym = {"int": n, "C": f"C{n}", "c": f"c{n}"}[c["spelling"]]
    out.label("symm", f"n:{n}", f"spelling:{c['spelling']}")
    out.nontrivial = n not in (2, 4)
    keep = vol.copy()
    ok, r = call(out, "symmetrize_volume", lambda: cryomap.symmetrize_volume(vol, sym))
    if not ok:
        return
    if not out.check(r.shape == shape and bool(np.all(np.isfinite(r))), "symm:shape_or_not_finite", f"{r.shape}"):
        return
    ref = sum(ref_rotate_z(vol, 360.0 * k / n) for k in range(n)) / n
    err = np.abs(r - ref).max()
    scale = np.abs(vol).max()
    if err > 1e-6 * scale:
        plain = np.abs(r - vol).max() <= 1e-9 * scale
        out.fail("symm:" + ("returns_the_input_unsymmetrised" if plain else "not_mean_of_n_rotated_copies"), f"n={n}: max deviation {err / scale:.3e} of the peak")
        return
    tot = vol.sum()
    out.check(abs(r.sum() - tot) <= 1e-3 * tot, "symm:density_not_preserved", f"{r.sum()} vs {tot}")
    v = ncc(ref_rotate_z(r, 360.0 / n), r)
    out.check(v > 0.999, "symm:not_invariant_under_360_over_n", f"NCC {v:.6f}")
    out.check(np.array_equal(vol, keep), "symm:input_modified", "")


# rejected calls that run before every case (vlib/faults.py): nothing they leave behind - module state, library options,
# stray files - may make the valid calls of the case violate the statement
from vlib import faults as _faults  # noqa: E402

fault_calls = _faults.for_property(ID)
