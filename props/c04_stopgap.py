"""C04 - STOPGAP <-> cryoCAT conversion is a lossless renaming with parity half-sets."""
import numpy as np
from hypothesis import strategies as st

from vlib import gen, oracle
from vlib.runner import Outcome, call

ID = "C04"
RULE = (
    "Particle tables (1..12 rows element-wise, optional PRNG bulk up to 300; arbitrary finite values in the 14 shared "
    "fields, integral unsorted non-sequential subtomogram numbers, column permutation, non-default row labels) x "
    "reset_index x update_coord x path in {in memory (convert_to_sg_motl of the class' table), write_out to .star, "
    "emmotl2stopgap from a table or an .em file} and back through {StopgapMotl(path), stopgap2emmotl(path), re-export of the loaded list with update_coord, "
    "StopgapMotl(STOPGAP DataFrame)}; additionally STOPGAP STAR texts and DataFrames produced by the harness' own "
    "writer are imported. Oracle: a literal table of the 14 documented name pairs written in the harness; per row "
    "sg[star_name] == motl[em_name] (exact in memory, 5e-7 + 1e-12|v| through a file), same particle order; halfset 'A' "
    "iff the subtomogram number is even; motl_idx == subtomogram number, or 1..N with reset; the written block is "
    "data_stopgap_motivelist with the 16 un-numbered labels in the documented order (independent tokenizer); with "
    "update_coord x,y,z are integral, |shift| <= 0.5, x+shift is preserved and the other fields are unchanged. "
    "Non-trivial: phi, psi, theta pairwise different in some row and both parities present."
)
ASSUMPTIONS = [
    "the static convert_to_sg_motl is given the class' own (index-reset) table, as the class paths do",
    "subtomogram numbers are integers of either sign (parity defines the half-set: -3 is odd)",
]
BUDGET = {"quick": {"examples": 1100, "seconds": 85}, "thorough": {"examples": 5000, "seconds": 540}}

PAIRS = [  # (cryoCAT field, STOPGAP column) - written from the STOPGAP motive-list documentation, not imported from cryoCAT
    ("subtomo_id", "subtomo_num"), ("tomo_id", "tomo_num"), ("object_id", "object"), ("x", "orig_x"), ("y", "orig_y"),
    ("z", "orig_z"), ("score", "score"), ("shift_x", "x_shift"), ("shift_y", "y_shift"), ("shift_z", "z_shift"),
    ("phi", "phi"), ("psi", "psi"), ("theta", "the"), ("class", "class"),
]
SG_COLUMNS = ["motl_idx", "tomo_num", "object", "subtomo_num", "halfset", "orig_x", "orig_y", "orig_z", "score",
              "x_shift", "y_shift", "z_shift", "phi", "psi", "the", "class"]
C = oracle.MOTL_COLUMNS


def strategy(tier):
    return st.fixed_dictionaries({
        "table": gen.table(1, 12, bulk_max=300, fields={"score": st.one_of(gen.finite(-1, 1), gen.finite(-1e4, 1e4), st.just(0.123456789))},
                           id_strategy=st.one_of(st.integers(1, 5000), st.integers(1, 5000), st.integers(-60, 60), st.integers(2**24, 2**24 + 50))),
        "reset_index": st.booleans(),
        "update_coord": st.booleans(),
        "export": st.sampled_from(["memory", "write_out", "emmotl2stopgap_df", "emmotl2stopgap_em"]),
        "import": st.sampled_from(["class_path", "stopgap2emmotl", "none"]),
        "independent": st.sampled_from(["none", "none", "frame", "text"]),
        "ids_pattern": st.sampled_from([None, None, None, None, "permuted", "other"]),
    })


def corner_cases(tier):
    rows = [[0.5, 0, 0, 7, 2, 3, 0, 10.4, 20.5, 30.6, 0.3, -0.7, 1.2, 0, 0, 0, 10.0, 20.0, 30.0, 1],
            [0.25, 0, 0, 2, 1, 1, 0, -3.0, 2.5, 7.0, 0.5, 0.5, -0.5, 0, 0, 0, -100.0, 15.0, 180.0, 2],
            [0.125, 0, 0, 11, 1, 1, 0, 4.0, 5.0, 6.0, 0.0, 0.0, 0.0, 0, 0, 0, 1.0, 2.0, 3.0, 2]]
    t = {"cols": C, "rows": rows, "bulk": None, "index": "default"}
    for ex in ("memory", "write_out", "emmotl2stopgap_df", "emmotl2stopgap_em"):
        yield {"table": t, "reset_index": ex != "memory", "update_coord": ex == "write_out", "export": ex, "import": "class_path", "independent": "text"}
    yield {"table": dict(t, index="reversed"), "reset_index": False, "update_coord": False, "export": "write_out", "import": "stopgap2emmotl", "independent": "frame"}


def close(a, b, via_file):
    a = np.asarray(a, float)
    b = np.asarray(b, float)
    if not via_file:
        return np.array_equal(a, b)
    return bool(np.all(np.abs(a - b) <= 5.1e-7 + 1e-12 * np.abs(b)))


def check_sg_table(out, sg, exp, reset, via_file, sig):
    """sg: dict column -> list (from DataFrame or tokenizer); exp: canonical array of expected motl values."""
    n = len(exp)
    for em, star in PAIRS:
        got = np.array(sg[star], dtype=float)
        if not out.check(len(got) == n, f"{sig}:row_count", f"{len(got)} vs {n}"):
            return False
        want = exp[:, C.index(em)]
        if not close(got, want, via_file):
            i = int(np.argmax(np.abs(got - want)))
            # classify: is the column holding another field's values?
            other = [e for e, s_ in PAIRS if e != em and close(got, exp[:, C.index(e)], via_file)]
            out.fail(f"{sig}:field_{star}" + (f"_holds_{other[0]}" if other else "_differs"), f"row {i}: {got[i]!r} vs {want[i]!r}")
            return False
    ids = exp[:, C.index("subtomo_id")]
    hs = list(sg["halfset"])
    want_hs = ["A" if int(v) % 2 == 0 else "B" for v in ids]
    if not out.check(hs == want_hs, f"{sig}:halfset_not_parity", lambda: f"{hs[:8]} vs {want_hs[:8]} for ids {ids[:8].tolist()}"):
        return False
    idx = np.array(sg["motl_idx"], dtype=float)
    want_idx = np.arange(1, n + 1, dtype=float) if reset else ids
    out.check(np.array_equal(idx, want_idx), f"{sig}:motl_idx", lambda: f"reset={reset}: {idx[:8].tolist()} vs {want_idx[:8].tolist()}")
    return True


def rounded(a):
    """C05 rounding law on a canonical array: returns None (not predicted) - only the invariants are checked."""
    return None


def run(case):
    import pandas as pd
    from cryocat import cryomotl

    out = Outcome()
    df0 = gen.table_df(case["table"])
    a = gen.table_array(case["table"])
    n = len(a)
    pat = case.get("ids_pattern")
    if pat and n >= 3:
        # numbers that start with 1 and end with N but are no 1..N sequence in between (permuted interior, or other numbers)
        r_ = np.random.default_rng(n + len(case["table"]["cols"][0]))
        mid = (r_.permutation(np.arange(2, n)) if pat == "permuted" else r_.permutation(np.arange(n + 5, 3 * n + 5))[: n - 2]).astype(float)
        if pat == "permuted" and n >= 4 and np.all(np.diff(mid) > 0):
            mid = mid[::-1].copy()
        newids = np.concatenate([[1.0], mid, [float(n)]])
        a[:, C.index("subtomo_id")] = newids
        df0["subtomo_id"] = newids.astype(df0["subtomo_id"].dtype)
        out.label(f"ids_first_1_last_N:{pat}")
    ang = a[:, [C.index("phi"), C.index("psi"), C.index("theta")]]
    distinct_ang = bool(np.any((ang[:, 0] != ang[:, 1]) & (ang[:, 1] != ang[:, 2]) & (ang[:, 0] != ang[:, 2])))
    par = a[:, C.index("subtomo_id")].astype(int) % 2
    out.nontrivial = distinct_ang and len(set(par.tolist())) == 2
    ex, im = case["export"], case["import"]
    reset, upd = case["reset_index"], case["update_coord"]
    out.label(f"export:{ex}", f"import:{im}", "reset" if reset else "noreset", "update" if upd else "noupdate", f"independent:{case['independent']}",
              f"index:{case['table'].get('index', 'default')}")
    exp = a.copy()
    star_path = None

    def expect_after_update(table_vals, sig):
        """update_coord: check invariants against `a` and return the array to compare the other fields with."""
        e = a.copy()
        for ax in "xyz":
            xi, si = C.index(ax), C.index("shift_" + ax)
            x, s = table_vals[ax], table_vals["shift_" + ax]
            tot = a[:, xi] + a[:, si]
            ok1 = np.all(x == np.round(x))
            ok2 = np.all(np.abs(s) <= 0.5 + 1e-6)
            ok3 = np.all(np.abs((x + s) - tot) <= 1e-6 * np.maximum(1, np.abs(tot)))
            out.check(bool(ok1), f"{sig}:update_coord_xyz_not_integral", ax)
            out.check(bool(ok2), f"{sig}:update_coord_shift_exceeds_half", ax)
            out.check(bool(ok3), f"{sig}:update_coord_position_changed", ax)
            e[:, xi], e[:, si] = x, s
        return e

    if ex == "memory":
        ok, m = call(out, "StopgapMotl", lambda: cryomotl.StopgapMotl(df0.copy()))
        if not ok:
            return out
        if upd:
            ok, _ = call(out, "update_coordinates", lambda: m.update_coordinates())
            if not ok:
                return out
            exp = expect_after_update({c: m.df[c].to_numpy() for c in ["x", "y", "z", "shift_x", "shift_y", "shift_z"]}, "memory")
        if reset or n % 2:
            ok, sg = call(out, "convert_to_sg_motl", lambda: cryomotl.StopgapMotl.convert_to_sg_motl(m.df, reset_index=reset))
        else:  # nothing requested: no renumbering
            out.label("reset_index_left_at_its_default")
            ok, sg = call(out, "convert_to_sg_motl", lambda: cryomotl.StopgapMotl.convert_to_sg_motl(m.df))
        if not ok:
            return out
        if out.check(list(sg.columns) == SG_COLUMNS, "memory:sg_columns", list(sg.columns)):
            check_sg_table(out, {c: sg[c].tolist() for c in SG_COLUMNS}, exp, reset, False, "memory")
            # two live results: another list of the same length (this one, rows reversed and values negated) is converted while the
            # first table is still held; the first table stays what it was
            sg_keep = sg.copy()
            other = m.df.iloc[::-1].copy()
            for c_ in ("x", "y", "z", "phi", "score"):
                other[c_] = -other[c_].to_numpy() - 1.0
            call(out, "convert_to_sg_motl(other list)", lambda: cryomotl.StopgapMotl.convert_to_sg_motl(other.reset_index(drop=True), reset_index=not reset))
            out.check(sg.equals(sg_keep), "memory:earlier_table_changed_by_converting_another_list", "")
        # write it too so that an import path can be exercised
        star_path = "mem.star"
        ok, _ = call(out, "write_out", lambda: m.write_out(star_path, reset_index=reset))
        if not ok:
            return out
    else:
        star_path = "out.star"
        if ex == "write_out":
            ok, m = call(out, "StopgapMotl", lambda: cryomotl.StopgapMotl(df0.copy()))
            if not ok:
                return out
            if reset or n % 2:
                ok, _ = call(out, "write_out", lambda: m.write_out(star_path, update_coord=upd, reset_index=reset))
            else:
                out.label("reset_index_left_at_its_default")
                ok, _ = call(out, "write_out", lambda: m.write_out(star_path, update_coord=upd))
        else:
            if ex == "emmotl2stopgap_em":
                ok, _ = call(out, "Motl.write_out", lambda: cryomotl.Motl(df0.copy()).write_out("in.em"))
                if not ok:
                    return out
                src = "in.em"
                a32 = np.where(np.isnan(a), 0, a).astype(np.float32).astype(float)
                a = a32
                exp = a.copy()
            else:
                src = df0.copy()
            if reset or n % 2:
                ok, m = call(out, "emmotl2stopgap", lambda: cryomotl.emmotl2stopgap(src, output_motl_path=star_path, update_coordinates=upd, reset_index=reset))
            else:
                out.label("reset_index_left_at_its_default")
                ok, m = call(out, "emmotl2stopgap", lambda: cryomotl.emmotl2stopgap(src, output_motl_path=star_path, update_coordinates=upd))
            if ok:
                # the same conversion without an output file: the returned list is the same list (updated coordinates included)
                src2 = src if isinstance(src, str) else df0.copy()
                ok_m, m_mem = call(out, "emmotl2stopgap(no output)", lambda: cryomotl.emmotl2stopgap(src2, update_coordinates=upd, reset_index=reset))
                if ok_m:
                    out.label("emmotl2stopgap_without_output_file")
                    g1, g2 = m_mem.df[C].to_numpy(dtype=float), m.df[C].to_numpy(dtype=float)
                    if out.check(g1.shape == g2.shape, "memory:row_count_depends_on_output_path", f"{g1.shape} vs {g2.shape}"):
                        out.check(np.array_equal(g1, g2, equal_nan=True), "memory:returned_list_depends_on_output_path", lambda: f"first difference in field {C[int(np.argwhere(~((g1 == g2) | (np.isnan(g1) & np.isnan(g2))))[0][1])]}")
        if not ok:
            return out
    # the written text, tokenized independently
    text = open(star_path, newline="").read()
    try:
        blocks = oracle.star_tokenize(text)
    except ValueError as e:
        out.fail("file:not_in_star_subset", str(e))
        return out
    if not out.check(len(blocks) == 1 and blocks[0]["spec"] == "data_stopgap_motivelist", "file:block_name", [b["spec"] for b in blocks]):
        return out
    b = blocks[0]
    out.check(b["labels"] == SG_COLUMNS, "file:labels_not_documented_order", b["labels"])
    out.check(all(c is None for c in b["label_comments"]), "file:labels_numbered", b["label_comments"][:3])
    if b["labels"] == SG_COLUMNS:
        sgf = {c: [r[j] for r in b["rows"]] for j, c in enumerate(SG_COLUMNS)}
        if upd and ex != "memory":
            vals = {}
            for ax, col in (("x", "orig_x"), ("y", "orig_y"), ("z", "orig_z"), ("shift_x", "x_shift"), ("shift_y", "y_shift"), ("shift_z", "z_shift")):
                vals[ax] = np.array(sgf[col], dtype=float)
            exp = expect_after_update(vals, "file")
        check_sg_table(out, sgf, exp, reset, True, "file")
    # import paths
    if im != "none":
        if im == "class_path":
            ok, back = call(out, "StopgapMotl(path)", lambda: cryomotl.StopgapMotl(star_path))
        else:
            ok, back = call(out, "stopgap2emmotl", lambda: cryomotl.stopgap2emmotl(star_path))
        if ok:
            bdf = back.df
            if out.check(len(bdf) == n, "import:row_count", f"{len(bdf)} vs {n}"):
                for em, _ in PAIRS:
                    got = bdf[em].to_numpy(dtype=float)
                    want = exp[:, C.index(em)]
                    if not close(got, want, True):
                        i = int(np.argmax(np.abs(got - want)))
                        srt = close(np.sort(got), np.sort(want), True)
                        out.fail("import:particle_order_changed" if srt else f"import:field_{em}_differs", f"row {i}: {got[i]!r} vs {want[i]!r}")
                        break
    # the converter's own output file and its update_coordinates switch: the file holds the returned list; updating moves
    # the integer part of the shift into x,y,z and leaves the complete position where it was
    if im == "stopgap2emmotl" and ok and not out.violations:
        ok, b3 = call(out, "stopgap2emmotl(output)", lambda: cryomotl.stopgap2emmotl(star_path, output_motl_path="back.em"))
        if ok:
            out.check(np.array_equal(b3.df[C].to_numpy(dtype=float), back.df[C].to_numpy(dtype=float), equal_nan=True), "import:result_changes_with_output_path", "")
            bad = oracle.em_motl_mismatch("back.em", b3.df)
            out.check(bad is None, f"import:output_em_file_{bad}", "")
        ok, b4 = call(out, "stopgap2emmotl(update_coordinates)", lambda: cryomotl.stopgap2emmotl(star_path, update_coordinates=True))
        if ok and out.check(len(b4.df) == n, "import_updated:row_count", f"{len(b4.df)}"):
            out.label("import_with_update_coordinates")
            X = b4.df[["x", "y", "z"]].to_numpy(dtype=float)
            S = b4.df[["shift_x", "shift_y", "shift_z"]].to_numpy(dtype=float)
            P0 = back.df[["x", "y", "z"]].to_numpy(dtype=float) + back.df[["shift_x", "shift_y", "shift_z"]].to_numpy(dtype=float)
            out.check(bool(np.all(X == np.round(X))), "import_updated:xyz_not_integral", "")
            out.check(bool(np.all(np.abs(S) <= 0.5 + 1e-9 * np.maximum(1.0, np.abs(P0)))), "import_updated:shift_exceeds_half", lambda: f"{np.abs(S).max()!r}")
            out.check(bool(np.all(np.abs(X + S - P0) <= 1e-9 * np.maximum(1.0, np.abs(P0)))), "import_updated:complete_position_moved", lambda: f"{np.abs(X + S - P0).max()!r}")
            rest = [c_ for c_ in C if c_ not in ("x", "y", "z", "shift_x", "shift_y", "shift_z")]
            out.check(np.array_equal(b4.df[rest].to_numpy(dtype=float), back.df[rest].to_numpy(dtype=float), equal_nan=True), "import_updated:other_field_changed", "")
    # a STOPGAP list written under an .em name is the plain EM form of its table
    if im == "class_path" and ok and not out.violations:
        ok_e, _ = call(out, "write_out(.em)", lambda: back.write_out("as_em.em"))
        if ok_e:
            bad = oracle.em_motl_mismatch("as_em.em", back.df)
            out.check(bad is None, f"write_em:file_{bad}", "")
    # a STOPGAP list object that was changed through its own methods is converted further as an object: the conversion
    # sees the list as it is now, not the table it was loaded from
    if im == "class_path" and ok and not out.violations:
        ok_s, sgo = call(out, "StopgapMotl(path)", lambda: cryomotl.StopgapMotl(star_path))
        if ok_s:
            ok_s, _ = call(out, "update_coordinates", lambda: sgo.update_coordinates())
        if ok_s:
            now = np.nan_to_num(sgo.df[C].to_numpy(dtype=float))  # (fields STOPGAP does not have are empty: NaN or 0)
            for nm_, fn_ in (("stopgap2emmotl(object)", lambda: cryomotl.stopgap2emmotl(sgo)), ("StopgapMotl(object)", lambda: cryomotl.StopgapMotl(sgo))):
                ok_c, conv = call(out, nm_, fn_)
                if ok_c:
                    got_ = np.nan_to_num(conv.df[C].to_numpy(dtype=float))
                    out.check(got_.shape == now.shape and np.array_equal(got_, now), "object_form:conversion_of_a_changed_list_object_returns_its_earlier_state", nm_)
            out.check(np.array_equal(np.nan_to_num(sgo.df[C].to_numpy(dtype=float)), now), "object_form:source_object_modified", "")
            out.label("object_form_after_update")
    # a list loaded from STOPGAP data is exported again with the OTHER numbering request: the new file follows the new
    # request (motl_idx = subtomogram number without reset, 1..N with reset), not what the loaded file happened to hold
    if im == "class_path" and ok and not out.violations:
        ok_o, other = call(out, "StopgapMotl(path)", lambda: cryomotl.StopgapMotl(star_path))
        if ok_o:
            ok_o, _ = call(out, "write_out", lambda: other.write_out("other.star", reset_index=not reset))
        if ok_o:
            try:
                bo = oracle.star_tokenize(open("other.star", newline="").read())[0]
                idx_o = [float(r[bo["labels"].index("motl_idx")]) for r in bo["rows"]]
                sub_o = [float(r[bo["labels"].index("subtomo_num")]) for r in bo["rows"]]
                want_o = [float(i + 1) for i in range(len(sub_o))] if not reset else sub_o
                out.label("reexport_with_other_numbering")
                out.check(idx_o == want_o, "reexport:motl_idx_follows_the_loaded_file_not_the_request", f"reset={not reset}: {idx_o[:6]} vs {want_o[:6]}")
            except (ValueError, IndexError) as e:
                out.fail("reexport:other_numbering_not_in_star_subset", str(e))
    # a list loaded from STOPGAP form is exported again after update_coordinates: the file must hold the updated table
    if im == "class_path" and not out.violations:
        ok, again = call(out, "StopgapMotl(path)", lambda: cryomotl.StopgapMotl(star_path))
        if ok:
            ok, _ = call(out, "write_out", lambda: again.write_out("again.star", update_coord=True, reset_index=reset))
        if ok:
            try:
                b2 = oracle.star_tokenize(open("again.star", newline="").read())[0]
            except (ValueError, IndexError) as e:
                out.fail("reexport:not_in_star_subset", str(e))
                b2 = None
            if b2 is not None and out.check(b2["labels"] == SG_COLUMNS, "reexport:labels", b2["labels"]):
                out.label("reexport_after_update")
                sg2 = {c: [r[j] for r in b2["rows"]] for j, c in enumerate(SG_COLUMNS)}
                base = exp  # what the first file held (within STAR precision)
                keep_a = a
                a = np.round(base, 6)
                vals = {}
                for ax, col in (("x", "orig_x"), ("y", "orig_y"), ("z", "orig_z"), ("shift_x", "x_shift"), ("shift_y", "y_shift"), ("shift_z", "z_shift")):
                    vals[ax] = np.array(sg2[col], dtype=float)
                exp2 = expect_after_update(vals, "reexport")
                check_sg_table(out, sg2, exp2, reset, True, "reexport")
                a = keep_a
    # a path that is written twice must be read as its current content (no memory of the first load)
    if im == "class_path" and not out.violations and n >= 2:
        rev = a[::-1].copy()
        dfr = gen.table_df({"cols": C, "rows": rev.tolist(), "bulk": None, "index": "default"})
        ok, _ = call(out, "write_out", lambda: cryomotl.StopgapMotl(dfr).write_out(star_path, reset_index=False))
        if ok:
            ok, b2 = call(out, "StopgapMotl(path)", lambda: cryomotl.StopgapMotl(star_path))
            if ok and out.check(len(b2.df) == n, "rewrite:row_count", f"{len(b2.df)}"):
                got_ids = b2.df["subtomo_id"].to_numpy(dtype=float)
                out.check(close(got_ids, rev[:, C.index("subtomo_id")], True), "rewrite:second_load_of_rewritten_path_returns_old_content", lambda: f"{got_ids[:4]} vs {rev[:4, C.index('subtomo_id')]}")
    # independent STOPGAP inputs
    ind = case["independent"]
    if ind != "none":
        rng = np.random.default_rng(n + int(abs(a[0, 7]) * 10))
        hs_ind = ["A" if int(v) % 2 == 0 else "B" for v in a[:, C.index("subtomo_id")]]
        sgd = {"motl_idx": list(range(1, n + 1)), "halfset": hs_ind}
        for em, star in PAIRS:
            sgd[star] = np.round(a[:, C.index(em)], 6).tolist() if ind == "text" else a[:, C.index(em)].tolist()
        if ind == "frame":
            fr = pd.DataFrame({c: sgd[c] for c in SG_COLUMNS})
            ok, back = call(out, "StopgapMotl(sg_frame)", lambda: cryomotl.StopgapMotl(fr))
        else:
            with open("ind.star", "w") as f:
                f.write("\ndata_stopgap_motivelist\n\nloop_\n" + "".join(f"_{c}\n" for c in SG_COLUMNS) + "\n")
                for i in range(n):
                    f.write("  ".join((repr(sgd[c][i]) if not isinstance(sgd[c][i], str) else sgd[c][i]) for c in SG_COLUMNS) + "\n")
            ok, back = call(out, "StopgapMotl(independent_file)", lambda: cryomotl.StopgapMotl("ind.star"))
        if ok:
            bdf = back.df
            if out.check(len(bdf) == n, "independent:row_count", f"{len(bdf)}"):
                for em, star in PAIRS:
                    got = bdf[em].to_numpy(dtype=float)
                    want = np.array(sgd[star], dtype=float)
                    if not close(got, want, ind == "text"):
                        out.fail(f"independent:field_{em}_differs", f"{got[:3]} vs {want[:3]}")
                        break
    return out


# rejected calls that run before every case (vlib/faults.py): nothing they leave behind - module state, library options,
# stray files - may make the valid calls of the case violate the statement
from vlib import faults as _faults  # noqa: E402

fault_calls = _faults.for_property(ID)
