#!/venv/bin/python
"""Coverage-guided campaign (atheris / libFuzzer) for the STAR reader of property C02.

Two input interpretations, selected by the first byte:
  structured: the remaining bytes are decoded with FuzzedDataProvider into the grammar choices of the C02 reader
              domain (blocks, labels, junk lines, separators, line ends) - every generated text is inside the subset;
  raw:        the remaining bytes are mapped onto printable ASCII + tab/newline and taken as the STAR text itself; the
              oracle applies only when the independent tokenizer accepts the text (inside the subset).
The semantic oracle (reader == independent tokenizer) runs inside the target; a violation writes a replayable case file
and aborts the campaign.  Usage: c02_star_fuzz.py <findings_dir> [libFuzzer args...]
"""
import json
import os
import sys
import tempfile

VERIF = os.path.dirname(os.path.dirname(os.path.abspath(__file__)))
sys.path.insert(0, os.path.join(VERIF, ".deps"))
sys.path.insert(0, VERIF)
os.environ.setdefault("MPLBACKEND", "Agg")
from vlib import env  # noqa: E402

env.prepare()
import atheris  # noqa: E402

with atheris.instrument_imports(include=["cryocat.starfileio"]):
    from cryocat import starfileio  # noqa: E402,F401

import warnings  # noqa: E402

warnings.filterwarnings("ignore")
from props import c02_star as P  # noqa: E402
from vlib.runner import Outcome  # noqa: E402

FINDINGS = sys.argv[1]
os.makedirs(FINDINGS, exist_ok=True)
WORK = tempfile.mkdtemp(prefix="c02fuzz_")
os.chdir(WORK)
STATS = {"execs": 0, "structured": 0, "raw": 0, "raw_in_subset": 0, "nontrivial": 0}
ALPHA = [chr(c) for c in range(33, 127)] + [" ", " ", " ", "\t", "\n", "\n", "\n", "\n", "_", "_", "#"]
WORDS = ["data_", "loop_", "data_particles", "data_optics", "_rlnA", "_rlnB #1", "1", "2.5", "-3e-2", "abc", "\n\n", "# c\n", "\r\n"]


def decode_structured(fdp):
    nb = fdp.ConsumeIntInRange(1, 3)
    specs = list(P.SPECS)
    blocks = []
    junk = ["", "  ", "\t", "# a comment here", "\t#x", "#", "   # version 30001", "# data_fake loop_ _rlnX"]
    seps = [" ", "\t", "   ", " \t ", "\t\t", "  "]
    trails = ["", " ", "\t", "  \t"]

    def pick(lst):
        return lst[fdp.ConsumeIntInRange(0, len(lst) - 1)]

    def token(kind):
        if kind == "int":
            return str(fdp.ConsumeIntInRange(-10**6, 10**6))
        if kind == "float":
            v = fdp.ConsumeIntInRange(-10**9, 10**9) / 10 ** fdp.ConsumeIntInRange(0, 8)
            return pick(["%.6f", "%r", "%e", "%.3f", "%G"]) % v
        n = fdp.ConsumeIntInRange(1, 8)
        t = "".join(P.TEXT_ALPHA[fdp.ConsumeIntInRange(0, len(P.TEXT_ALPHA) - 1)] for _ in range(n))
        if t[0] == "_":
            t = "p" + t
        if t == "loop_":
            t = "loopx"
        if t.startswith("data_"):
            t = "d" + t
        return t

    for b in range(nb):
        last = b == nb - 1
        ncol = fdp.ConsumeIntInRange(1, 6)
        nrow = fdp.ConsumeIntInRange(0 if last else 1, 6)
        kinds = [pick(["int", "float", "text", "mixed"]) for _ in range(ncol)]
        labels = [{"name": "rln" + "".join(pick(list("ABCdefXYZ")) for _ in range(fdp.ConsumeIntInRange(1, 5))) + str(i),
                   "suffix": pick([f" #{i + 1}", "", " ", f"\t#{i + 1} ", " # words", f"#{i + 1}"])} for i in range(ncol)]
        cols = []
        for k in kinds:
            toks = [token("int" if k == "int" else "float" if k == "float" else "text") for _ in range(nrow)]
            if k == "mixed":
                toks = [token("int") if fdp.ConsumeBool() else t for t in toks]
            if k in ("text", "mixed") and nrow:
                toks[fdp.ConsumeIntInRange(0, nrow - 1)] = pick(list(P.SAFE_LETTERS)) + token("text")
            cols.append(toks)
        rows = [{"lead": pick(["", "", " ", "\t"]), "tokens": [c[r] for c in cols], "seps": [pick(seps) for _ in range(ncol - 1)], "trail": pick(trails)} for r in range(nrow)]
        blocks.append({"spec": specs[(fdp.ConsumeIntInRange(0, 5) + b) % len(specs)] if b == 0 else specs[(b * 2 + 1) % len(specs)],
                       "pre": [pick(junk) for _ in range(fdp.ConsumeIntInRange(0, 2))], "spec_trail": pick(trails),
                       "post_spec": [pick(junk) for _ in range(fdp.ConsumeIntInRange(0, 2))], "loop_trail": pick(trails), "labels": labels, "kinds": kinds,
                       "post_labels": [pick(junk) for _ in range(fdp.ConsumeIntInRange(0, 2))], "rows": rows})
    # distinct block names
    seen = set()
    for i, b in enumerate(blocks):
        while b["spec"] in seen:
            b["spec"] = specs[(specs.index(b["spec"]) + 1) % len(specs)]
        seen.add(b["spec"])
    return {"kind": "read", "blocks": blocks, "tail": [pick(junk) for _ in range(fdp.ConsumeIntInRange(0, 2))], "nl": pick(["\n", "\n", "\r\n"]),
            "final_nl": fdp.ConsumeBool()}


def decode_raw(fdp):
    raw = fdp.ConsumeBytes(fdp.remaining_bytes())[:2600]
    parts = []
    for b in raw:
        if 32 <= b < 127 or b in (9, 10):
            parts.append(chr(b))
        elif b == 13:
            parts.append("\r\n")
        elif b >= 230:
            parts.append(WORDS[b % len(WORDS)])
        else:
            parts.append(ALPHA[b % len(ALPHA)])
    return {"kind": "rawtext", "text": "".join(parts)}


def report(case, out):
    sig, detail = out.violations[0]
    name = "fuzz-" + "".join(ch if ch.isalnum() else "_" for ch in sig)[:60] + ".json"
    with open(os.path.join(FINDINGS, name), "w") as f:
        json.dump({"property": "C02", "signature": "fuzz:" + sig, "detail": detail, "case": case}, f)
    dump_stats()
    raise RuntimeError("C02 violation: " + sig + " " + detail)


def dump_stats():
    with open(os.path.join(FINDINGS, "stats.json"), "w") as f:
        json.dump(STATS, f)


def TestOneInput(data):
    STATS["execs"] += 1
    if len(data) < 2:
        return
    fdp = atheris.FuzzedDataProvider(data)
    mode = fdp.ConsumeIntInRange(0, 3)
    try:
        case = decode_raw(fdp) if mode == 0 else decode_structured(fdp)
    except Exception:
        return
    out = Outcome()
    if case["kind"] == "read":
        STATS["structured"] += 1
        P.run_read(case, out)
    else:
        STATS["raw"] += 1
        if not P.run_rawtext(case, out):
            return
        STATS["raw_in_subset"] += 1
    if out.nontrivial:
        STATS["nontrivial"] += 1
    for n_ in os.listdir("."):
        try:
            os.unlink(n_)
        except OSError:
            pass
    if STATS["execs"] % 500 == 0:
        dump_stats()
    if out.violations:
        report(case, out)


if __name__ == "__main__":
    atheris.Setup([sys.argv[0]] + sys.argv[2:], TestOneInput)
    try:
        atheris.Fuzz()
    finally:
        dump_stats()
