"""Byte codec of the C19 fuzz target: decode(FuzzedDataProvider) -> explicit case, encode(case) -> seed bytes."""
DMAX = [1.0, 1.5, 2.0, 2.5, 3.0, 5.0]
DMIN = [0.0, 0.0, 0.25, 0.5, 1.0]


def decode(fdp, stores):
    n = fdp.ConsumeIntInRange(2, 24)
    dmax = DMAX[fdp.ConsumeIntInRange(0, len(DMAX) - 1)]
    dmin = DMIN[fdp.ConsumeIntInRange(0, len(DMIN) - 1)]
    store = stores[fdp.ConsumeIntInRange(0, len(stores) - 1)]
    two = fdp.ConsumeIntInRange(0, 1) == 1  # (ConsumeBool takes its byte from the front, every other call from the end)
    E, X, T = [], [], []
    for _ in range(n):
        e = [fdp.ConsumeIntInRange(0, 640) / 64.0 for _ in range(3)]
        d = [fdp.ConsumeIntInRange(-128, 128) / 64.0 for _ in range(3)]
        E.append(e)
        X.append([e[k] + d[k] for k in range(3)])
        T.append(2 if two and fdp.ConsumeIntInRange(0, 3) == 0 else 1)
    return {"family": "explicit", "dmax": dmax, "dmin": dmin, "entry": E, "exit": X, "tomo": T, "ids_seed": n, "store": store, "single_call": True}


def encode(case, stores):
    """inverse of decode (up to the 1/64 grid and the threshold lists): turns saved inputs into seed files"""
    vals = []  # (value - lo, span) in call order

    def put(v, lo, hi):
        vals.append((int(v) - lo, hi - lo))

    n = len(case["entry"])
    put(n, 2, 24)
    put(DMAX.index(min(DMAX, key=lambda d: abs(d - case["dmax"]))), 0, len(DMAX) - 1)
    put(0, 0, len(DMIN) - 1)
    put(0, 0, len(stores) - 1)
    two = any(t != 1 for t in case["tomo"])
    vals.append((1 if two else 0, 1))
    for e, x, t in zip(case["entry"], case["exit"], case["tomo"]):
        for k in range(3):
            put(round(min(10.0, max(0.0, e[k])) * 64), 0, 640)
        for k in range(3):
            put(round(min(2.0, max(-2.0, x[k] - e[k])) * 64), -128, 128)
        if two:
            put(0 if t != 1 else 1, 0, 3)
    # the provider reads integers from the END of the data, one call after the other; within a call the byte read first
    # (the last one) is the most significant: each call's bytes are its value in little-endian order, later calls in front
    buf = bytearray()
    for v, span in vals:
        nb = max(1, (span.bit_length() + 7) // 8)
        buf = bytearray(int(v).to_bytes(nb, "little")) + buf
    return bytes(buf)
