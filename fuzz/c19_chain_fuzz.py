#!/venv/bin/python
"""Coverage-guided campaign (atheris / libFuzzer) for chain tracing, property C19.

The bytes are decoded with FuzzedDataProvider into an explicit entry/exit configuration: 2..24 particles on a 1/64 grid
inside a 10^3 box, exit = entry + a displacement of up to +-2, tomogram 1 or 2, thresholds and storage columns from
short lists.  cryocat.ribana is instrumented, so libFuzzer's coverage feedback steers towards inputs that take new
branch combinations of trace_chains / add_chain_suffix / add_chain_prefix (the rare merge / cut paths).  The semantic
oracle (props.c19_chains.run: partition into simple, distance-respecting chains) runs inside the target; a violation
writes a replayable case file and ends the campaign.  Usage: c19_chain_fuzz.py <findings_dir> [libFuzzer args...]
"""
import json
import os
import sys
import tempfile

VERIF = os.path.dirname(os.path.dirname(os.path.abspath(__file__)))
sys.path.insert(0, os.path.join(VERIF, ".deps"))
sys.path.insert(0, VERIF)
sys.path.insert(0, os.path.join(VERIF, "fuzz"))
os.environ.setdefault("MPLBACKEND", "Agg")
from vlib import env  # noqa: E402

env.prepare()
import atheris  # noqa: E402

with atheris.instrument_imports(include=["cryocat.ribana"]):
    from cryocat import ribana  # noqa: E402,F401

import warnings  # noqa: E402

warnings.filterwarnings("ignore")
from props import c19_chains as P  # noqa: E402

FINDINGS = sys.argv[1]
os.makedirs(FINDINGS, exist_ok=True)
WORK = tempfile.mkdtemp(prefix="c19fuzz_")
os.chdir(WORK)
STATS = {"execs": 0, "decoded": 0, "filtered": 0, "nontrivial": 0, "branches": {}}
from c19_seed_encoder import DMAX, DMIN, decode as _decode, encode as _encode  # noqa: E402,F401


def decode(fdp):
    return _decode(fdp, P.STORES)


def dump_stats():
    with open(os.path.join(FINDINGS, "stats.json"), "w") as f:
        json.dump(STATS, f)


def TestOneInput(data):
    STATS["execs"] += 1
    if len(data) < 16:
        return
    fdp = atheris.FuzzedDataProvider(data)
    case = decode(fdp)
    STATS["decoded"] += 1
    out = P.run(case)
    if out.filtered:
        STATS["filtered"] += 1
    if out.nontrivial:
        STATS["nontrivial"] += 1
    for lab in out.labels:
        if lab.startswith("branch:"):
            STATS["branches"][lab] = STATS["branches"].get(lab, 0) + 1
    if STATS["execs"] % 100 == 0:
        dump_stats()
    if out.violations:
        sig, detail = out.violations[0]
        name = "fuzz-" + "".join(ch if ch.isalnum() else "_" for ch in sig)[:60] + ".json"
        with open(os.path.join(FINDINGS, name), "w") as f:
            json.dump({"property": "C19", "signature": "fuzz:" + sig, "detail": detail, "case": case}, f)
        dump_stats()
        raise RuntimeError("C19 violation: " + sig + " " + detail)


if __name__ == "__main__":
    atheris.Setup([sys.argv[0]] + sys.argv[2:], TestOneInput)
    try:
        atheris.Fuzz()
    finally:
        dump_stats()
