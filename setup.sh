#!/bin/bash
# MANIFEST.setup_cmd: offline install of the property-testing engine next to the repository's packages.
set -u
cd "$(dirname "$0")"
export PIP_NO_INDEX=1
if ! /venv/bin/python -c "import hypothesis" 2>/dev/null; then
  /venv/bin/pip install --no-index --find-links /opt/veriftools/wheels hypothesis || exit 1
fi
if ! PYTHONPATH=.deps /venv/bin/python -c "import atheris" 2>/dev/null; then
  mkdir -p .deps
  /venv/bin/pip install --no-index --find-links /opt/veriftools/wheels --target .deps atheris >/dev/null 2>&1 || echo "atheris not installed (C02 fuzz campaign will be skipped and reported)"
fi
/venv/bin/python -c "import hypothesis; print('hypothesis', hypothesis.__version__)"
exit 0
