#!/bin/bash
# tools/at_commit.sh <commit> <ID> [tier]  - run a check against the repository as of <commit> (sensitivity / pre-fix confirmation)
set -u
c=$1; id=$2; tier=${3:-quick}
d=$(mktemp -d /tmp/vr_XXXXXX)
git -C /repo worktree add --detach "$d" "$c" >/dev/null 2>&1 || exit 2
VERIF_REPO="$d" "$(dirname "$0")/../check" "$id" --tier "$tier"
rc=$?
git -C /repo worktree remove --force "$d"
exit $rc
