#!/usr/bin/env python3
"""Benign variants: changes after which a property still holds (written by sub-agents given only the property text).
A check must stay quiet on them; an alarm is either over-reach of the check or a variant that does break the property.

tools/benign.py confirm <ID> <src_dir> [name]  - src_dir holds patch.diff, demo.py, meta.json.  In a scratch worktree of
      /repo HEAD: demo exits 0 clean AND with the patch; pinned baseline passes with the patch.  Copies to benign/<ID>-<name>/.
tools/benign.py run [<ID>|<ID>-<name>|all]      - run the property's quick check against every kept variant; records
      quiet / alarm (with the signatures) in benign/RESULTS.json.
"""
import fcntl
import json
import os
import shutil
import sys
import tempfile
import time

sys.path.insert(0, os.path.dirname(os.path.abspath(__file__)))
from seeded import PY, V, Worktree, baseline_in, sh  # noqa: E402


def confirm(pid, src, name):
    patch, demo = os.path.join(src, "patch.diff"), os.path.join(src, "demo.py")
    meta = json.load(open(os.path.join(src, "meta.json")))
    with Worktree() as d:
        r0 = sh([PY, demo, d], timeout=400, cwd=tempfile.gettempdir())
        a = sh(["git", "-C", d, "apply", patch])
        if a.returncode:
            print(pid, name, "patch does not apply:", a.stdout[-300:])
            return False
        r1 = sh([PY, demo, d], timeout=400, cwd=tempfile.gettempdir())
        missing = baseline_in(d)
    ok = r0.returncode == 0 and r1.returncode == 0 and not missing
    print(f"{pid} {name}: demo clean rc={r0.returncode} patched rc={r1.returncode} baseline_missing={len(missing)} -> {'KEEP' if ok else 'REJECT'}")
    if not ok:
        print((r1.stdout if r1.returncode else r0.stdout)[-600:])
        return False
    dst = os.path.join(V, "benign", f"{pid}-{name}")
    os.makedirs(dst, exist_ok=True)
    shutil.copy(patch, os.path.join(dst, "patch.diff"))
    shutil.copy(demo, os.path.join(dst, "demo.py"))
    json.dump({"property": pid, "variant": name, "summary": meta.get("summary"), "observable_difference": meta.get("observable_difference"),
               "why_property_still_holds": meta.get("why_property_still_holds"), "files_changed": meta.get("files_changed"),
               "origin": "independent sub-agent given only the property text and a scratch worktree",
               "confirmed": {"at": time.strftime("%Y-%m-%d %H:%M"), "demo_clean_rc": r0.returncode, "demo_patched_rc": r1.returncode, "pinned_tests_not_passing_with_patch": missing}},
              open(os.path.join(dst, "meta.json"), "w"), indent=1)
    return True


def run(which):
    resf = os.path.join(V, "benign", "RESULTS.json")
    for n in sorted(x for x in os.listdir(os.path.join(V, "benign")) if os.path.isdir(os.path.join(V, "benign", x))):
        pid = n.split("-")[0]
        if which not in ("all", pid, n):
            continue
        t0 = time.time()
        with Worktree() as d:
            a = sh(["git", "-C", d, "apply", os.path.join(V, "benign", n, "patch.diff")])
            if a.returncode:
                entry = {"status": "patch_does_not_apply"}
            else:
                r = sh([os.path.join(V, "check"), pid, "--tier", "quick"], env=dict(os.environ, VERIF_REPO=d))
                sigs = [l.strip()[:200] for l in r.stdout.splitlines() if l.startswith("  ") and ":" in l]
                entry = {"status": "quiet" if r.returncode == 0 else ("harness_error" if r.returncode == 2 else "alarm"), "rc": r.returncode,
                         "seconds": round(time.time() - t0, 1), "signatures": sigs[:6]}
        print(n, entry["status"], entry.get("seconds"), "|", "; ".join(s[:110] for s in entry.get("signatures", [])[:3]))
        with open(resf + ".lock", "w") as lk:
            fcntl.flock(lk, fcntl.LOCK_EX)
            cur = json.load(open(resf)) if os.path.exists(resf) else {}
            cur[n] = entry
            json.dump(cur, open(resf, "w"), indent=1, sort_keys=True)


if __name__ == "__main__":
    os.makedirs(os.path.join(V, "benign"), exist_ok=True)
    if sys.argv[1] == "confirm":
        sys.exit(0 if confirm(sys.argv[2], sys.argv[3], sys.argv[4] if len(sys.argv) > 4 else os.path.basename(sys.argv[3].rstrip("/"))) else 1)
    run(sys.argv[2] if len(sys.argv) > 2 else "all")
