#!/usr/bin/env python3
"""tools/kf.py <property> <signature> <open|fixed> <commit|-> <what...>  - append an entry to known_findings.json (development-time only)."""
import json, sys, os
p = os.path.join(os.path.dirname(os.path.dirname(os.path.abspath(__file__))), "known_findings.json")
d = json.load(open(p))
prop, sig, status, commit = sys.argv[1:5]
what = " ".join(sys.argv[5:])
if status == "fixed":
    what = f"fixed: property={prop} {commit} {what}"
d["findings"] = [e for e in d["findings"] if not (e["property"] == prop and e["signature"] == sig)]
d["findings"].append({"property": prop, "signature": sig, "status": status, "commit": None if commit == "-" else commit, "what": what})
json.dump(d, open(p, "w"), indent=1)
print("ok", len(d["findings"]))
