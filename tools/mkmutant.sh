#!/bin/bash
# tools/mkmutant.sh <ID> <name> <file-relative-to-repo> <python-expr-old> <python-expr-new>  - create mutants/<ID>/<name>.patch by exact string replacement
set -eu
id=$1; name=$2; file=$3; old=$4; new=$5
d=$(mktemp -d /tmp/vk_XXXXXX)
git -C /repo worktree add --detach "$d" HEAD >/dev/null 2>&1
trap 'git -C /repo worktree remove --force "$d" 2>/dev/null' EXIT
OLD="$old" NEW="$new" python3 - "$d/$file" <<'PY'
import os, sys
p = sys.argv[1]; s = open(p).read()
old = os.environ["OLD"].encode().decode("unicode_escape"); new = os.environ["NEW"].encode().decode("unicode_escape")
n = s.count(old)
if n != 1:
    print(f"expected exactly one occurrence, found {n}"); sys.exit(1)
open(p, "w").write(s.replace(old, new))
PY
mkdir -p "$(dirname "$0")/../mutants/$id"
git -C "$d" diff > "$(dirname "$0")/../mutants/$id/$name.patch"
echo "mutants/$id/$name.patch"
