#!/bin/bash
# tools/runall.sh [tier] - run every registered check, print a one-line summary per property
tier=${1:-quick}
cd "$(dirname "$0")/.."
for id in C01 C02 C03 C04 C05 C06 C07 C08 C09 C10 C11 C12 C13 C14 C15 C16 C17 C18 C19 C20; do
  s=$(date +%s); out=$(./check $id --tier $tier 2>&1); rc=$?; e=$(date +%s)
  echo "$id rc=$rc $((e-s))s | $(echo "$out" | grep -E "^C[0-9]+ (quick|thorough)" | tail -1)"
  echo "$out" | grep -E "VIOLATION|HARNESS|KNOWN-FINDING" | cut -c1-200
done
