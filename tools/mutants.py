#!/usr/bin/env python3
"""tools/mutants.py [ID|all] - run every own mutant (mutants/<ID>/*.patch) against its property's quick check; results -> mutants/RESULTS.json.
Optionally `--baseline` also runs the pinned suite against each mutant (records whether the existing tests already kill it)."""
import glob, json, os, subprocess, sys, tempfile, time
sys.path.insert(0, os.path.dirname(os.path.abspath(__file__)))
from seeded import Worktree, baseline_in, sh, V

which = sys.argv[1] if len(sys.argv) > 1 and not sys.argv[1].startswith("--") else "all"
with_base = "--baseline" in sys.argv
resf = os.path.join(V, "mutants", "RESULTS.json")
res = json.load(open(resf)) if os.path.exists(resf) else {}
for patch in sorted(glob.glob(os.path.join(V, "mutants", "C*", "*.patch"))):
    pid = os.path.basename(os.path.dirname(patch))
    name = pid + "/" + os.path.basename(patch)[:-6]
    if which not in ("all", pid):
        continue
    t0 = time.time()
    with Worktree() as d:
        a = sh(["git", "-C", d, "apply", patch])
        if a.returncode:
            res[name] = {"status": "patch_does_not_apply"}
            print(name, "patch does not apply")
            continue
        r = sh([os.path.join(V, "check"), pid, "--tier", "quick"], env=dict(os.environ, VERIF_REPO=d))
        entry = {"status": "detected" if (r.returncode == 1 and "VIOLATION" in r.stdout) else ("harness_error" if r.returncode == 2 else "missed"),
                 "seconds": round(time.time() - t0, 1), "signatures": [l.strip()[:160] for l in r.stdout.splitlines() if l.startswith("  ")][:4]}
        if with_base:
            entry["pinned_suite_kills_it"] = bool(baseline_in(d))
    res[name] = entry
    print(name, entry["status"], entry.get("pinned_suite_kills_it"))
    json.dump(res, open(resf, "w"), indent=1, sort_keys=True)
