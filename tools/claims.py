CLAIMS["C01"] = (
    "property-based round trip (Hypothesis) against an independent EM byte parser",
    "Generated tables in drawn column permutations are written through all four write paths and compared cell-by-cell, by field name, with an independently parsed view of the file bytes and with the re-loaded table. Held on everything explored; no claim of absence.",
    "Trusts numpy float64->float32 rounding as 'single-precision rounding' and the harness EM parser (512-byte header, x-fastest data).",
)
