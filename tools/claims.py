CLAIMS["C01"] = (
    "property-based round trip (Hypothesis) against an independent EM byte parser",
    "Generated tables in drawn column permutations are written through all four write paths and compared cell-by-cell, by field name, with an independently parsed view of the file bytes and with the re-loaded table. Held on everything explored; no claim of absence.",
    "Trusts numpy float64->float32 rounding as 'single-precision rounding' and the harness EM parser (512-byte header, x-fastest data).",
)
CLAIMS["C02"] = (
    "property-based round trip + differential test of the STAR reader against an independent tokenizer (Hypothesis grammar generation)",
    "Generated frame lists are written and re-read and compared with the generated data and with an independent tokenization of the written text; grammar-generated STAR texts are read and compared block by block, label by label, token by token with the independent tokenizer. Held on everything explored.",
    "Trusts the harness tokenizer (oracle.star_tokenize) as the definition of the STAR subset; numeric equality up to 1e-15 abs / 1e-13 rel (pandas.to_numeric precision).",
)
CLAIMS["C06"] = (
    "property-based differential test against explicit SO(3) matrix algebra + metamorphic relations (symmetry, invariance, triangle)",
    "Generated rotation pairs/triples from all classes (incl. near-identical, antipodal, gimbal lock; thorough: all 576 cube-rotation pairs and the whole 45-degree Euler lattice) are compared with an independent matrix oracle; normals/Euler conversions are checked through the z-axis image. Held on everything explored.",
    "Trusts the harness matrix algebra (cross-checked once against scipy in oracle.self_test) and a 2e-5 degree tolerance derived from arccos conditioning.",
)
CLAIMS["C11"] = (
    "property-based round trip against independent byte-level MRC2014/EM parsers and writers",
    "Generated non-cubic arrays of four dtypes go through write/read, em2mrc/mrc2em and invert_contrast; the written bytes are parsed by the harness' own parsers (header dims, type code, x-fastest voxel order) and files written by the harness' own writers are read by cryoCAT. Held on everything explored.",
    "Trusts the harness' MRC/EM byte layout knowledge (1024/512-byte headers); casts limited to value-preserving ones.",
)
CLAIMS["C12"] = (
    "property-based test of the transfer function against an integer-frequency-grid oracle + metamorphic relations (linearity, shift commutation, complement, band = difference, plane waves)",
    "Generated maps (noise, impulses, plane waves; non-cubic, odd/even) are filtered and the DFT of the output is compared with the exact radial step gain (hard edge) or with the stated bands, range and ray-wise monotonicity (soft edge); thorough adds every integer frequency of an 8x9x10 box. Held on everything explored.",
    "Trusts numpy.fft as the DFT and the harness' integer frequency grid; soft-edge band tolerance 1.5e-3 derived from the truncated Gaussian kernel.",
)
CLAIMS["C13"] = (
    "property-based test against exact integer/rational membership oracles + voxel-wise Boolean algebra oracle",
    "Generated boxes, centres, radii/heights (to beyond the box), shells, shape names and mask lists of mixed dtypes; hard masks are compared voxel by voxel with analytic inequalities evaluated in exact arithmetic, soft masks with range/core bounds, set operations with numpy Boolean algebra and input-immutability. Held on everything explored.",
    "Integer/half-integer radii (no floating-point ties); ellipsoid voxels within 1e-12 of the boundary (other than on-axis ones) are skipped.",
)
CLAIMS["C15"] = (
    "property-based model test: stack as a list of 2-D images, every op compared with a numpy selection/permutation model; written files parsed by an independent MRC reader",
    "Generated non-square stacks through sort/remove/even-odd/flip/crop/bin in all four order combinations, array and file input (file written by the harness' own MRC writer), with the returned array and the written file compared to the image-list model. Held on everything explored.",
    "Binning compares full blocks only; int16 within 1; trusts the harness MRC writer/parser.",
)
CLAIMS["C16"] = (
    "property-based test of the per-image transfer function against the closed-form Grant-Grigorieff gain on an integer frequency grid + metamorphic relations (composition, linearity, monotonicity in dose)",
    "Generated non-square even/odd stacks, doses in any order (incl. 0), noise and plane waves, array (both orders) and file input, dose as list/array/file; the 2-D DFT of every output image is compared with exp(-dose/(2(0.245 f^-1.665+2.81))) times the input's DFT. Held on everything explored.",
    "Trusts numpy.fft and the closed-form constants quoted in the property; float32 paths compared at 2e-5.",
)
CLAIMS["C05"] = (
    "model-based property test over operation histories (Hypothesis-generated op sequences interpreted against the real Motl and a matrix/vector model, compared after every step)",
    "Generated particle tables and histories of up to 6 pose operations; after every step complete positions and orientation matrices are compared with an explicit model (p*f, p+Rs, RQ, z-mirror), non-pose fields and row order must be untouched, update_coordinates must leave integral x,y,z and |shift|<=0.5, double flip must restore all fields. Held on everything explored.",
    "Trusts the harness rotation algebra (explicit matrices); orientation tolerance 1e-6, position tolerance 1e-9 relative plus shift-propagated slack.",
)
CLAIMS["C08"] = (
    "model-based (stateful) property test: generated operation histories over a pool of particle lists, interpreted against the real Motl objects and a pure-Python row-list model, compared after every step",
    "Generated pools of tables (repeats, NaN holes, duplicate and near-equal ids, non-default row labels) and histories of up to 10 set/renumbering operations; after every step the 20-column invariant and row-by-row equality with the model (or admissibility where the statement leaves a choice) are checked, and inputs of non-mutating operations must be unchanged. Held on everything explored.",
    "Trusts the pure-Python model of the nine operations as written from the property text; NaN identified with 0.",
)
CLAIMS["C09"] = (
    "property-based differential test against a per-particle brute-force inside predicate (no KD-tree, no vectorised index mapping)",
    "Generated particle clouds placed on, inside and beyond every face with non-zero shifts, 1..4 tomograms with own dimensions/masks/points; the four filters' survivor lists are compared (set, order, all fields) with the analytic predicate. Held on everything explored except the listed known finding (lower faces never tested in out-of-bounds removal), which is reported as KNOWN-FINDING and excluded by exact signature.",
    "Dimension tables list every tomogram; distance ties and positions in (-1,0) for masks are excluded by construction/filter.",
)
CLAIMS["C10"] = (
    "property-based test against an explicit-matrix orbit oracle (R_parent Rz(360k/n), centre + R_out s), exhaustive over n = 1..64 x four spellings in the thorough tier",
    "Generated particle lists, every symmetry order up to 64 in all spellings and general/on-axis offsets; each output is matched to its parent and subunit index and compared with the orbit formula, id/field discipline and the integer-position invariant. Held on everything explored.",
    "Unique input ids; row order of the output not constrained.",
)
CLAIMS["C04"] = (
    "property-based round trip and differential test against a literal name-pair table; written STAR text parsed by the independent tokenizer; independent STOPGAP inputs (frame and text) imported",
    "Generated lists go through every export path (in memory, write_out, emmotl2stopgap from table/.em) x reset_index x update_coord and back through every import path, including re-export of a loaded list after update_coordinates; all 14 shared fields, order, half-set parity, motl_idx and the block/label layout are checked. Held on everything explored.",
    "Trusts the harness' pair table (STOPGAP documentation) and oracle.star_tokenize; file tolerance 5e-7.",
)
CLAIMS["C03"] = (
    "property-based differential + round-trip test against elementary rotation matrices and an independent RELION STAR writer/tokenizer",
    "Generated lists x versions 3.0/3.1/4.0 x pixel sizes x name formats x optics on/off are exported in memory and through files (parsed independently) and imported back; independently written RELION inputs (origins in px/Angstrom, half-set columns, pixel size via column/optics/argument) are imported. One-directional oracles (M_rln R_cc == I, rlnCoordinate == x+shift, shift == -origin/px) catch convention errors that a symmetric round trip would hide. Held on everything explored.",
    "Conventions fixed in the harness: R_cc = Rz(psi)Rx(theta)Rz(phi), M_rln = Rz(rot)Ry(tilt)Rz(psi); binning 1.0; tolerance 2e-7 on matrices, 5e-7 on file positions.",
)
CLAIMS["C07"] = (
    "property-based validity-predicate test (separation + domination + group independence) with brute-force distance computation; metamorphic per-group re-run",
    "Generated clustered particle lists and plateau-free score/angle maps; the result of clean_by_distance / scores_extract_particles is checked against the validity predicate of the statement (not against a re-implementation of the greedy order), plus field preservation, 1-based positions, score and angle lookup. Held on everything explored.",
    "Exact-distance and threshold ties are filtered and counted; optional arguments of the peak extraction left at defaults.",
)
CLAIMS["C18"] = (
    "property-based differential test against brute-force neighbour search with explicit matrices + metamorphic rigid-motion invariance",
    "Generated pairs of lists (clustered positions, partly disjoint tomogram sets, coincident lists, k up to 5, pixel sizes) are compared row by row (query id, rank) with a brute-force reference for neighbour identity, distance, offsets in both frames, angular distance and relative orientation; then both lists are moved rigidly per tomogram and the invariant columns must not change. Held on everything explored.",
    "Distance ties filtered; query ids unique; explicit-matrix rotation algebra trusted.",
)
CLAIMS["C19"] = (
    "property-based validity-predicate test (partition, consecutive order numbers, link distances in (min,max] and recorded) over generated dense clouds, constructive polylines and integer lattices, plus (thorough tier) a coverage-guided atheris/libFuzzer campaign over explicit configurations with cryocat.ribana instrumented; branch coverage measured by harness-side wrappers",
    "Generated paired entry/exit lists that drive the suffix/prefix/both-sides/cut branches (frequency of each branch reported in the evidence labels); every output is checked against the partition and link predicates computed by brute force from the input coordinates. Held on everything explored (48 000 cases in the thorough tier after two repairs).",
    "Real-valued boundary ties filtered; exact boundary hits decided on the integer-lattice family; chains identified by (tomogram, object).",
)
CLAIMS["C20"] = (
    "property-based validity-predicate test with brute-force admissibility, independent greedy reference for tie-free cases, and metamorphic relations (rigid motion, voxel scaling, direction/label swap); numba candidate kernel compared set-wise",
    "Generated two-sheet point clouds (planar/tilted/curved, lattice/random, noisy normals, mixed labelling) are measured and the result is checked to be a one-to-one, admissible, maximal, greedy-consistent matching with correct thicknesses; the candidate kernel must report exactly the admissible sets. Held on everything explored.",
    "Margin filter 1e-9 at the distance and cone thresholds; < 25 candidates per source; CUDA twin not executable here.",
)
CLAIMS["C17"] = (
    "grammar-based property test: generated mdoc texts / loader files / wedge-list inputs written by the harness, results compared with the generated instance; mdoc round trip and op histories (sort, remove) against a list model; written STAR/EM files parsed independently",
    "Generated mdoc grammars (small/large decimals, negatives, multi-token text, unsorted tilts) with sort/remove histories and write/re-read; tilt, dose, mdoc-dose, gctf and ctffind4 loaders against the numbers in harness-written files; STOPGAP and EM wedge lists for 1..5 tomograms with per-tomogram dimensions/z-shifts/defocus/dose against a per-row model. Held on everything explored.",
    "mdoc values without '='; distinct tilt angles; ascending tilt files for wedge lists; float32 tolerance for float32 loaders.",
)
CLAIMS["C14"] = (
    "property-based test with exact voxel-permutation oracle for the 24 cube rotations (all interior voxels), centre-of-mass/NCC relations for random rotations, brute-force window and stamping models, and an independent map_coordinates reference for C_n symmetrisation",
    "Generated boxes (odd/even/non-cubic) x cube rotations in three call forms; smooth blobs under random rotations; windows inside/straddling/outside; particle lists stamped with exact (cube) and random rotations, overlapping, clipped, coloured by three fields, with non-default row labels; n = 2..12 symmetrisation in three spellings. Thorough enumerates all 24 rotations x 12 box shapes. Held on everything explored.",
    "Input face voxels excluded from the exact check (as the property states); even cubic templates with a one-voxel margin; integer complete positions.",
)
