#!/usr/bin/env python3
"""Regenerate MANIFEST.json from the table below (keeps claimed checks and not_applicable consistent with props/)."""
import glob, json, os

V = os.path.dirname(os.path.dirname(os.path.abspath(__file__)))
props = [json.loads(l) for l in open(os.path.join(V, "properties.jsonl"))]

# per property: (technique, level text, level note)
CLAIMS = {}
exec(open(os.path.join(V, "tools", "claims.py")).read())

checks, na = [], []
for p in props:
    pid = p["id"]
    have = glob.glob(os.path.join(V, "props", pid.lower() + "_*.py"))
    if have and pid in CLAIMS:
        tech, text, note = CLAIMS[pid]
        checks.append({
            "property_id": pid,
            "quick_cmd": f"./check {pid} --tier quick",
            "thorough_cmd": f"./check {pid} --tier thorough",
            "evidence_file": f"/verif/evidence/{pid}.json",
            "replay_cmd_template": f"./check {pid} --replay {{path}}",
            "engine": "hypothesis-runner",
            "level_claimed": {"category": "exploration", "text": text, "design_ref": f"DESIGN.md section 4, {pid}"},
            "level_note": note,
            "technique": tech,
        })
    else:
        na.append({"property_id": pid, "reason": "check not built yet in this session (planned in DESIGN.md section 4); not a limitation of the technique"})
m = {
    "version": 1,
    "setup_cmd": "bash ./setup.sh",
    "hooks": {
        "guard": "CRYOCAT_VERIF",
        "enable": "no source hooks are needed: checks import cryocat from /repo's working tree (sys.path) and observe only public return values and written files; harness-side wrappers are installed at import time by the check itself",
        "baseline_off_cmd": "/verif/tools/baseline.py",
        "source_commits": [],
        "add_only": True,
    },
    "engines": [{
        "name": "hypothesis-runner", "path": "/verif/vlib/runner.py",
        "serves_properties": [c["property_id"] for c in checks],
        "kind_free_text": "Hypothesis 6.168 generated-input search with independent oracles; collect-then-shrink bucketing by root-cause signature; JSON replay files; 16-process sharding in the thorough tier",
    }],
    "checks": checks,
    "notes": "Entry point ./check <ID> --tier quick|thorough [--replay FILE]. VERIF_SEED selects the Hypothesis seed stream. exit 0 held / 1 VIOLATION / 2 harness error. Genuine defects repaired in /repo as 'fix:' commits are listed in known_findings.json (status fixed); open findings print KNOWN-FINDING lines.",
    "not_applicable": na,
}
json.dump(m, open(os.path.join(V, "MANIFEST.json"), "w"), indent=1)
print(f"{len(checks)} checks, {len(na)} not claimed")
