#!/usr/bin/env python3
"""Confirm and evaluate sub-agent seeded mutants.

tools/seeded.py confirm <ID> <src_dir> [name]   - src_dir holds patch.diff, demo.py, meta.json (from a sub-agent).
      In a scratch worktree of /repo HEAD: demo passes clean, fails with patch; pinned baseline passes with patch.
      On success copies to /verif/seeded/<ID>-<name>/ and records what was run in meta.json.
tools/seeded.py run [<ID>|all] [--tier quick]   - run the registered check of every kept mutant's property against it,
      record detected / missed in seeded/RESULTS.json.
"""
import json
import os
import shutil
import subprocess
import sys
import tempfile
import time
import xml.etree.ElementTree as ET

V = os.path.dirname(os.path.dirname(os.path.abspath(__file__)))
PY = "/venv/bin/python"


def sh(cmd, **kw):
    return subprocess.run(cmd, shell=isinstance(cmd, str), stdout=subprocess.PIPE, stderr=subprocess.STDOUT, text=True, **kw)


class Worktree:
    def __enter__(self):
        self.d = tempfile.mkdtemp(prefix="vs_", dir="/tmp")
        os.rmdir(self.d)
        r = sh(["git", "-C", "/repo", "worktree", "add", "--detach", self.d, "HEAD"])
        if r.returncode:
            raise RuntimeError(r.stdout)
        return self.d

    def __exit__(self, *a):
        sh(["git", "-C", "/repo", "worktree", "remove", "--force", self.d])
        shutil.rmtree(self.d, ignore_errors=True)


def baseline_in(d):
    base = json.load(open("/root/.vp/BASELINE.json"))
    out = tempfile.mktemp(suffix=".xml")
    cmd = base["cmd"].replace("cd /repo", f"cd {d}").replace("<file>", out)
    sh(cmd)
    passed = set()
    for tc in ET.parse(out).getroot().iter("testcase"):
        if not any(ch.tag in ("failure", "error", "skipped") for ch in tc):
            passed.add(f"{tc.get('classname')}::{tc.get('name')}".replace(d, "/repo"))
    os.unlink(out)
    return [t for t in base["stable_pass"] if t not in passed]


def confirm(pid, src, name):
    patch = os.path.join(src, "patch.diff")
    demo = os.path.join(src, "demo.py")
    meta = json.load(open(os.path.join(src, "meta.json")))
    res = {"confirmed_at": time.strftime("%Y-%m-%d %H:%M"), "commands": []}
    with Worktree() as d:
        r0 = sh([PY, demo, d], timeout=300, cwd=tempfile.gettempdir())
        res["demo_clean_rc"] = r0.returncode
        a = sh(["git", "-C", d, "apply", patch])
        if a.returncode:
            print("patch does not apply:", a.stdout)
            return False
        r1 = sh([PY, demo, d], timeout=300, cwd=tempfile.gettempdir())
        res["demo_patched_rc"] = r1.returncode
        res["demo_patched_output"] = r1.stdout[-600:]
        missing = baseline_in(d)
        res["pinned_tests_not_passing_with_patch"] = missing
        res["commands"] = [f"{PY} demo.py <clean worktree> -> rc {r0.returncode}", f"git apply patch.diff; {PY} demo.py <worktree> -> rc {r1.returncode}",
                           f"pinned baseline (BASELINE.json cmd) in patched worktree -> {len(missing)} stable tests not passing"]
    ok = r0.returncode == 0 and r1.returncode == 1 and not missing
    print(f"{pid} {name}: clean rc={r0.returncode} patched rc={r1.returncode} baseline_missing={len(missing)} -> {'KEEP' if ok else 'REJECT'}")
    if not ok:
        if r0.returncode != 0:
            print(r0.stdout[-800:])
        return False
    dst = os.path.join(V, "seeded", f"{pid}-{name}")
    os.makedirs(dst, exist_ok=True)
    shutil.copy(patch, os.path.join(dst, "patch.diff"))
    shutil.copy(demo, os.path.join(dst, "demo.py"))
    meta_out = {"property": pid, "mutant": name, "summary": meta.get("summary"), "needs_to_manifest": meta.get("needs_to_manifest"),
                "files_changed": meta.get("files_changed"), "origin": "independent sub-agent given only the property text and a scratch worktree",
                "confirmed": res}
    json.dump(meta_out, open(os.path.join(dst, "meta.json"), "w"), indent=1)
    return True


def run(which, tier):
    resf = os.path.join(V, "seeded", "RESULTS.json")
    results = json.load(open(resf)) if os.path.exists(resf) else {}
    names = sorted(n for n in os.listdir(os.path.join(V, "seeded")) if os.path.isdir(os.path.join(V, "seeded", n)))
    for n in names:
        pid = n.split("-")[0]
        if which not in ("all", pid, n):
            continue
        if not [f for f in os.listdir(os.path.join(V, "props")) if f.startswith(pid.lower() + "_")]:
            continue
        patch = os.path.join(V, "seeded", n, "patch.diff")
        t0 = time.time()
        with Worktree() as d:
            a = sh(["git", "-C", d, "apply", patch])
            if a.returncode:
                results[n] = {"status": "patch_does_not_apply"}
                print(n, "patch does not apply")
                continue
            env = dict(os.environ, VERIF_REPO=d)
            r = sh([os.path.join(V, "check"), pid, "--tier", tier], env=env)
        sigs = [l.strip() for l in r.stdout.splitlines() if l.startswith("  ") and ":" in l]
        detected = r.returncode == 1 and "VIOLATION" in r.stdout
        results[n] = {"status": "detected" if detected else ("harness_error" if r.returncode == 2 else "missed"), "tier": tier,
                      "rc": r.returncode, "seconds": round(time.time() - t0, 1), "signatures": [s[:200] for s in sigs[:6]]}
        print(n, results[n]["status"], results[n]["seconds"], "s", "|", "; ".join(s[:100] for s in sigs[:3]))
        if r.returncode == 2:
            print(r.stdout[-1500:])
        # read-modify-write under a lock: several runs may record results concurrently
        import fcntl
        with open(resf + ".lock", "w") as lk:
            fcntl.flock(lk, fcntl.LOCK_EX)
            cur = json.load(open(resf)) if os.path.exists(resf) else {}
            cur[n] = results[n]
            json.dump(cur, open(resf, "w"), indent=1, sort_keys=True)


if __name__ == "__main__":
    if sys.argv[1] == "confirm":
        pid, src = sys.argv[2], sys.argv[3]
        name = sys.argv[4] if len(sys.argv) > 4 else os.path.basename(src.rstrip("/"))
        sys.exit(0 if confirm(pid, src, name) else 1)
    elif sys.argv[1] == "run":
        which = sys.argv[2] if len(sys.argv) > 2 and not sys.argv[2].startswith("--") else "all"
        tier = sys.argv[sys.argv.index("--tier") + 1] if "--tier" in sys.argv else "quick"
        run(which, tier)
