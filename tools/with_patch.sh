#!/bin/bash
# tools/with_patch.sh <patch> <ID> [tier]  - run a check against a scratch worktree of /repo HEAD with <patch> applied (sensitivity)
set -u
p=$(realpath "$1"); id=$2; tier=${3:-quick}
d=$(mktemp -d /tmp/vm_XXXXXX)
git -C /repo worktree add --detach "$d" HEAD >/dev/null 2>&1 || exit 2
if ! git -C "$d" apply "$p"; then echo "PATCH-DOES-NOT-APPLY $p"; git -C /repo worktree remove --force "$d"; exit 3; fi
VERIF_REPO="$d" "$(dirname "$0")/../check" "$id" --tier "$tier"
rc=$?
git -C /repo worktree remove --force "$d"
exit $rc
