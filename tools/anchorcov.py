#!/venv/bin/python
"""Which lines of a property's anchored functions do the generated cases of its check actually execute?

tools/anchorcov.py <ID> [--examples N] [--seed S]     (run from /verif; uses sys.monitoring, python >= 3.12)

The anchors in properties.jsonl give line ranges at the pinned base commit.  They are mapped to function names there
(every def whose span overlaps a range) and looked up by qualified name in the current tree, so repairs that moved
lines do not matter.  For each such function the executable lines (from its code object) that no corner, regression or
generated case reached are listed; the summary goes to anchorcov/<ID>.json.  This is a generator audit, not a check.
"""
import ast
import importlib
import json
import os
import subprocess
import sys

V = os.path.dirname(os.path.dirname(os.path.abspath(__file__)))
sys.path.insert(0, V)
BASE = "c2839b2"  # the pinned tree the anchors' line numbers refer to


def functions(src):
    out = []

    def walk(node, prefix):
        for ch in ast.iter_child_nodes(node):
            if isinstance(ch, (ast.FunctionDef, ast.AsyncFunctionDef)):
                q = prefix + ch.name
                out.append((q, ch.lineno, ch.end_lineno))
                walk(ch, q + ".")
            elif isinstance(ch, ast.ClassDef):
                walk(ch, prefix + ch.name + ".")
            else:
                walk(ch, prefix)

    walk(ast.parse(src), "")
    return out


def parse_where(w):
    f, _, rng = w.partition(":")
    spans = []
    for part in rng.split(","):
        a, _, b = part.partition("-")
        spans.append((int(a), int(b or a)))
    return f, spans


def code_lines(code, acc):
    """executable lines per code object qualified name"""
    lines = {l for _, _, l in code.co_lines() if l is not None and l != code.co_firstlineno}
    acc.setdefault(code.co_qualname, set()).update(lines)
    for c in code.co_consts:
        if hasattr(c, "co_lines"):
            code_lines(c, acc)


def main():
    pid = sys.argv[1]
    n = int(sys.argv[sys.argv.index("--examples") + 1]) if "--examples" in sys.argv else 300
    seed = int(sys.argv[sys.argv.index("--seed") + 1]) if "--seed" in sys.argv else 1
    prop = [json.loads(l) for l in open(os.path.join(V, "properties.jsonl")) if json.loads(l)["id"] == pid][0]
    from vlib import env

    env.prepare()
    repo = env.repo_path()
    wanted = {}  # file -> {qualname: anchor name}
    for m in prop["anchors"]["mechanism"]:
        f, spans = parse_where(m["where"])
        base_src = subprocess.run(["git", "-C", "/repo", "show", f"{BASE}:{f}"], capture_output=True, text=True).stdout
        for q, a, b in functions(base_src):
            if any(a <= e and s <= b for s, e in spans):
                wanted.setdefault(f, {})[q] = m["name"]
    hits = {}
    files = {os.path.join(repo, f): f for f in wanted}
    mon = sys.monitoring
    TOOL = mon.COVERAGE_ID
    mon.use_tool_id(TOOL, "anchorcov")

    def on_line(code, line):
        fn = code.co_filename
        if fn in files:
            hits.setdefault(fn, set()).add(line)
        return mon.DISABLE

    mon.register_callback(TOOL, mon.events.LINE, on_line)
    mon.set_events(TOOL, mon.events.LINE)
    from vlib import runner

    mod = importlib.import_module([f"props.{f[:-3]}" for f in os.listdir(os.path.join(V, "props")) if f.startswith(pid.lower() + "_")][0])
    stats = runner.Stats()
    known_open, _ = runner.load_known(pid)
    with runner.scratch_cwd():
        rdir = os.path.join(V, "regress", pid)
        cases = []
        if os.path.isdir(rdir):
            for fn in sorted(os.listdir(rdir)):
                c = json.load(open(os.path.join(rdir, fn)))
                cases.append(c["case"] if isinstance(c, dict) and "case" in c and "signature" in c else c)
        if hasattr(mod, "corner_cases"):
            cases += list(mod.corner_cases("quick"))
        for c in cases:
            runner.evaluate(mod, c, stats, known_open, corner=True)
        runner.generate(mod, "quick", seed, n, 600, known_open, 5, stats)
    mon.set_events(TOOL, 0)
    report = {"property": pid, "examples": stats.evaluations, "functions": []}
    for f, qs in wanted.items():
        path = os.path.join(repo, f)
        src = open(path).read()
        acc = {}
        code_lines(compile(src, path, "exec"), acc)
        spans = {q: (a, b) for q, a, b in functions(src)}
        got = hits.get(path, set())
        for q, anchor in sorted(qs.items(), key=lambda kv: spans.get(kv[0], (0, 0))):
            if q not in spans:
                report["functions"].append({"file": f, "function": q, "status": "not in current tree"})
                continue
            a, b = spans[q]
            exe = sorted(l for l in acc.get(q, set()) if a <= l <= b)
            miss = [l for l in exe if l not in got]
            report["functions"].append({"file": f, "function": q, "anchor": anchor, "lines": f"{a}-{b}", "executable": len(exe), "missed": miss})
    os.makedirs(os.path.join(V, "anchorcov"), exist_ok=True)
    json.dump(report, open(os.path.join(V, "anchorcov", pid + ".json"), "w"), indent=1)
    srcs = {}
    for r in report["functions"]:
        if r.get("status"):
            print(f"{pid} {r['file']}::{r['function']}: {r['status']}")
            continue
        tag = "NEVER CALLED" if r["executable"] and len(r["missed"]) == r["executable"] else ""
        print(f"{pid} {r['file']}::{r['function']} [{r['lines']}] {r['executable'] - len(r['missed'])}/{r['executable']} {tag}")
        if r["missed"] and not tag and "--lines" in sys.argv:
            L = srcs.setdefault(r["file"], open(os.path.join(repo, r["file"])).read().splitlines())
            for l in r["missed"]:
                print(f"      {l}: {L[l - 1].strip()[:120]}")


if __name__ == "__main__":
    main()
