#!/usr/bin/env python3
"""Write seeded/RESULTS.md and mutants/RESULTS.md from the JSON result files (human-readable record of which check catches which change)."""
import json, os
V = os.path.dirname(os.path.dirname(os.path.abspath(__file__)))

def clip(t, n):
    t = " ".join(str(t or "").split())
    return t if len(t) <= n else t[: n - 1] + "…"

res = json.load(open(os.path.join(V, "seeded", "RESULTS.json")))
L = ["# Independently seeded changes: what each needs and which check signature caught it", "",
     "Each change was written by a fresh sub-agent that saw only the property text and a scratch worktree. `m1-m3`: round 1 (one-site slips); `m4-m6`: round 2 (two cooperating edits, state carried between calls, rare input class); `m7-m9`: round 3 (numerically subtle, one of several argument forms, ordering/identity); `m10-m12`: round 4 (clean-up regression, defect in a helper, size/magnitude dependent); `m13-m15`: round 5 (clause-targeted). Confirmed here: demo passes on the clean tree, fails with the patch, pinned baseline 307/307 with the patch.", "",
     "| Change | Summary | Needs to manifest | Result (quick tier) | First signature |", "|---|---|---|---|---|"]
for name in sorted(res):
    mp = os.path.join(V, "seeded", name, "meta.json")
    meta = json.load(open(mp)) if os.path.exists(mp) else {}
    r = res[name]
    sig = (r.get("signatures") or [""])[0].split(" (")[0]
    L.append(f"| {name} | {clip(meta.get('summary'), 220)} | {clip(meta.get('needs_to_manifest'), 200)} | {r['status']} ({r.get('seconds', '?')} s) | `{clip(sig, 80)}` |")
n_det = sum(1 for r in res.values() if r["status"] == "detected")
L += ["", f"{n_det} of {len(res)} detected."]
open(os.path.join(V, "seeded", "RESULTS.md"), "w").write("\n".join(L) + "\n")
mf = os.path.join(V, "mutants", "RESULTS.json")
if os.path.exists(mf):
    res = json.load(open(mf))
    L = ["# Own mutants (mutants/<ID>/*.patch)", "", "| Mutant | Result (quick tier) | Pinned suite kills it | First signature |", "|---|---|---|---|"]
    for name in sorted(res):
        r = res[name]
        sig = (r.get("signatures") or [""])[0].split(" (")[0]
        L.append(f"| {name} | {r['status']} | {r.get('pinned_suite_kills_it', 'not run')} | `{clip(sig, 90)}` |")
    n_det = sum(1 for r in res.values() if r["status"] == "detected")
    L += ["", f"{n_det} of {len(res)} detected."]
    open(os.path.join(V, "mutants", "RESULTS.md"), "w").write("\n".join(L) + "\n")
bf = os.path.join(V, "benign", "RESULTS.json")
if os.path.exists(bf):
    res = json.load(open(bf))
    L = ["# Benign variants (property-preserving refactorings written by sub-agents): the check has to stay quiet", "",
         "| Variant | Summary | Observable difference | Result (quick tier) |", "|---|---|---|---|"]
    for name in sorted(res):
        mp = os.path.join(V, "benign", name, "meta.json")
        meta = json.load(open(mp)) if os.path.exists(mp) else {}
        L.append(f"| {name} | {clip(meta.get('summary'), 240)} | {clip(meta.get('observable_difference'), 220)} | {res[name]['status']} |")
    L += ["", f"{sum(1 for r in res.values() if r['status'] == 'quiet')} of {len(res)} quiet."]
    open(os.path.join(V, "benign", "RESULTS.md"), "w").write("\n".join(L) + "\n")
print("written")
