#!/bin/bash
# tools/round3.sh <ID>  - confirm and blind-run the round-3 seeded changes of one property (m7 m8 m9)
id=$1
cd "$(dirname "$0")/.."
git -C /repo worktree remove --force /tmp/wt/$id 2>/dev/null
for m in m7 m8 m9; do tools/seeded.py confirm $id /tmp/seed/$id/$m $m | tail -1; done
for m in m7 m8 m9; do [ -d seeded/$id-$m ] && tools/seeded.py run $id-$m | cut -c1-260; done
