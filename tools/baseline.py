#!/usr/bin/env python3
"""Run the pinned baseline (guard OFF) and compare with /root/.vp/BASELINE.json stable_pass.  exit 0 iff every stable test passes."""
import json, os, subprocess, sys, tempfile, xml.etree.ElementTree as ET

base = json.load(open("/root/.vp/BASELINE.json"))
out = tempfile.mktemp(suffix=".junit.xml")
cmd = base["cmd"].replace("<file>", out)
env = dict(os.environ)
env.pop("CRYOCAT_VERIF", None)
p = subprocess.run(cmd, shell=True, env=env, stdout=subprocess.PIPE, stderr=subprocess.STDOUT, text=True)
passed = set()
for tc in ET.parse(out).getroot().iter("testcase"):
    if not any(ch.tag in ("failure", "error", "skipped") for ch in tc):
        passed.add(f"{tc.get('classname')}::{tc.get('name')}")
os.unlink(out)
missing = [t for t in base["stable_pass"] if t not in passed]
print(f"baseline: {len(base['stable_pass']) - len(missing)}/{len(base['stable_pass'])} stable tests pass; {len(passed)} passed in total")
for t in missing[:40]:
    print("  NOT PASSING:", t)
subprocess.run("cd /repo && rm -f band.em tests/test_data/wedgeutils_data/wedge_mask.em", shell=True)
sys.exit(1 if missing else 0)
