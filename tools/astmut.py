#!/venv/bin/python
"""Mechanical mutation analysis of the anchored functions of a property (a sensitivity experiment, not a check).

tools/astmut.py <ID> [--n 15] [--seed 1]

The anchored functions (same mapping as tools/anchorcov.py) are parsed; every comparison, arithmetic or boolean operator,
unary minus / not, small integer constant and boolean constant inside them is a mutation site.  A deterministic sample of
--n sites is mutated one at a time (the function is re-emitted with ast.unparse, the rest of the file is untouched) in a
scratch worktree of /repo, and the property's quick check runs against it.  For every mutant the check does not flag,
the pinned suite is run as well: a mutant that the existing tests already kill is not of interest.  Results go to
mutants_auto/<ID>.json; the diff of every surviving mutant is kept in mutants_auto/<ID>/ for triage (equivalent mutant,
outside the statement, or a gap).
"""
import ast
import copy
import json
import os
import random
import subprocess
import sys
import textwrap
import time

sys.path.insert(0, os.path.dirname(os.path.abspath(__file__)))
from anchorcov import BASE, functions, parse_where  # noqa: E402
from seeded import V, Worktree, baseline_in, sh  # noqa: E402

CMP = {ast.Lt: ast.LtE, ast.LtE: ast.Lt, ast.Gt: ast.GtE, ast.GtE: ast.Gt, ast.Eq: ast.NotEq, ast.NotEq: ast.Eq}
BIN = {ast.Add: ast.Sub, ast.Sub: ast.Add, ast.Mult: ast.Div, ast.Div: ast.Mult, ast.FloorDiv: ast.Div}
BOOL = {ast.And: ast.Or, ast.Or: ast.And}


def sites(fn_node):
    """list of (kind, path) where path identifies the node by its position in ast.walk order"""
    out = []
    for i, node in enumerate(ast.walk(fn_node)):
        if isinstance(node, ast.Compare):
            for j, op in enumerate(node.ops):
                if type(op) in CMP:
                    out.append(("cmp", i, j))
        elif isinstance(node, ast.BinOp) and type(node.op) in BIN:
            # string formatting / concatenation is not arithmetic
            if not (isinstance(node.left, (ast.Constant, ast.JoinedStr)) and isinstance(getattr(node.left, "value", None), str)):
                out.append(("bin", i, 0))
        elif isinstance(node, ast.BoolOp) and type(node.op) in BOOL:
            out.append(("bool", i, 0))
        elif isinstance(node, ast.UnaryOp) and isinstance(node.op, (ast.Not, ast.USub)) and not isinstance(node.operand, ast.Constant):
            out.append(("unary", i, 0))
        elif isinstance(node, ast.Constant):
            if isinstance(node.value, bool):
                out.append(("flag", i, 0))
            elif isinstance(node.value, int) and 0 <= node.value <= 20:
                out.append(("int", i, 0))
    return out


def mutate(fn_node, site):
    kind, idx, j = site
    new = copy.deepcopy(fn_node)
    node = list(ast.walk(new))[idx]
    if kind == "cmp":
        node.ops[j] = CMP[type(node.ops[j])]()
        what = "comparison"
    elif kind == "bin":
        what = f"{type(node.op).__name__}"
        node.op = BIN[type(node.op)]()
    elif kind == "bool":
        node.op = BOOL[type(node.op)]()
        what = "and/or"
    elif kind == "unary":
        what = "dropped " + type(node.op).__name__
        # replace the unary node by its operand: rewrite in the parent
        for parent in ast.walk(new):
            for field, val in ast.iter_fields(parent):
                if val is node:
                    setattr(parent, field, node.operand)
                elif isinstance(val, list) and node in val:
                    val[val.index(node)] = node.operand
    elif kind == "flag":
        node.value = not node.value
        what = "boolean constant"
    else:
        node.value = node.value + 1
        what = "integer constant + 1"
    return new, what


def anchored(pid):
    prop = [json.loads(l) for l in open(os.path.join(V, "properties.jsonl")) if json.loads(l)["id"] == pid][0]
    wanted = {}
    for m in prop["anchors"]["mechanism"]:
        f, spans = parse_where(m["where"])
        base_src = subprocess.run(["git", "-C", "/repo", "show", f"{BASE}:{f}"], capture_output=True, text=True).stdout
        for q, a, b in functions(base_src):
            if any(a <= e and s <= b for s, e in spans):
                wanted.setdefault(f, set()).add(q)
    return wanted


def find_function(tree, qual):
    parts = qual.split(".")

    def rec(node, rest):
        for ch in ast.iter_child_nodes(node):
            if isinstance(ch, (ast.FunctionDef, ast.ClassDef, ast.AsyncFunctionDef)) and ch.name == rest[0]:
                return ch if len(rest) == 1 else rec(ch, rest[1:])
            if not isinstance(ch, (ast.FunctionDef, ast.ClassDef, ast.AsyncFunctionDef)):
                r = rec(ch, rest)
                if r is not None:
                    return r
        return None

    return rec(tree, parts)


def main():
    pid = sys.argv[1]
    n = int(sys.argv[sys.argv.index("--n") + 1]) if "--n" in sys.argv else 15
    seed = int(sys.argv[sys.argv.index("--seed") + 1]) if "--seed" in sys.argv else 1
    rnd = random.Random(f"{pid}-{seed}")
    cands = []
    for f, quals in sorted(anchored(pid).items()):
        src = open(os.path.join("/repo", f)).read()
        tree = ast.parse(src)
        for q in sorted(quals):
            if "." in q and q.split(".")[-2][0].islower():  # nested helper functions are reached through their parent
                continue
            fn = find_function(tree, q)
            if fn is None or not isinstance(fn, (ast.FunctionDef, ast.AsyncFunctionDef)):
                continue
            for s in sites(fn):
                cands.append((f, q, s))
    rnd.shuffle(cands)
    picked = cands[:n]
    sub = sys.argv[sys.argv.index("--out") + 1] if "--out" in sys.argv else ""  # e.g. "seed2": a second sample next to the first
    root = os.path.join(V, "mutants_auto", sub) if sub else os.path.join(V, "mutants_auto")
    outdir = os.path.join(root, pid)
    os.makedirs(outdir, exist_ok=True)
    results = {"property": pid, "sites_in_anchored_functions": len(cands), "sampled": len(picked), "seed": seed, "mutants": []}
    for k, (f, q, site) in enumerate(picked):
        src = open(os.path.join("/repo", f)).read()
        tree = ast.parse(src)
        fn = find_function(tree, q)
        new_fn, what = mutate(fn, site)
        lines = src.splitlines(keepends=True)
        first = min([fn.lineno] + [d.lineno for d in fn.decorator_list])
        indent = len(lines[fn.lineno - 1]) - len(lines[fn.lineno - 1].lstrip())
        code = textwrap.indent(ast.unparse(new_fn), " " * indent) + "\n"
        if ast.unparse(new_fn) == ast.unparse(fn):
            continue
        mutated = "".join(lines[: first - 1]) + code + "".join(lines[fn.end_lineno:])
        name = f"a{k:02d}_{q.replace('.', '_')}_{site[0]}"
        entry = {"name": name, "file": f, "function": q, "operator": what}
        t0 = time.time()
        with Worktree() as d:
            # the diff shown for triage is against a copy whose function was re-emitted unchanged (so that it shows the mutation only)
            open(os.path.join(d, f), "w").write("".join(lines[: first - 1]) + textwrap.indent(ast.unparse(fn), " " * indent) + "\n" + "".join(lines[fn.end_lineno:]))
            sh(["git", "-C", d, "add", "-A"])
            open(os.path.join(d, f), "w").write(mutated)
            diff = sh(["git", "-C", d, "diff"]).stdout
            r = sh([os.path.join(V, "check"), pid, "--tier", "quick"], env=dict(os.environ, VERIF_REPO=d))
            status = "detected" if (r.returncode == 1 and "VIOLATION" in r.stdout) else ("harness_error" if r.returncode == 2 else "survived")
            entry["check"] = status
            entry["signatures"] = [l.strip()[:140] for l in r.stdout.splitlines() if l.startswith("  ") and ":" in l][:3]
            if status != "detected":
                missing = baseline_in(d)
                entry["pinned_suite_kills_it"] = bool(missing)
                open(os.path.join(outdir, name + ".diff"), "w").write(diff)
        entry["seconds"] = round(time.time() - t0, 1)
        results["mutants"].append(entry)
        print(pid, name, entry["check"], entry.get("pinned_suite_kills_it"), what, flush=True)
        json.dump(results, open(os.path.join(root, pid + ".json"), "w"), indent=1)


if __name__ == "__main__":
    main()
