"""Generic runner: tiering, seeding, sharding, bucketing by root-cause signature,
shrinking through Hypothesis, replay from plain JSON, evidence writing.

A property module (props/cXX_*.py) provides

    ID            "C01"
    RULE          text: generator + what makes a case non-trivial
    ASSUMPTIONS   list of str
    BUDGET        {"quick": {"examples": n, "seconds": s}, "thorough": {"examples": n (per shard), "seconds": s}}
    strategy(tier)   -> hypothesis strategy of JSON-able cases
    run(case)        -> Outcome
    corner_cases(tier) (optional) -> iterable of hand written / exhaustively enumerated cases
    EXHAUSTIVE       (optional) text describing the exhaustively enumerated sub-domain of corner_cases('thorough')
"""
import contextlib
import hashlib
import importlib
import io
import json
import multiprocessing as mp
import signal
import threading
import os
import shutil
import sys
import tempfile
import time
import traceback

VERIF = os.path.dirname(os.path.dirname(os.path.abspath(__file__)))


class Outcome:
    __slots__ = ("labels", "nontrivial", "violations", "filtered")

    def __init__(self):
        self.labels = []
        self.nontrivial = False
        self.violations = []  # list of (signature, detail)
        self.filtered = None  # reason string when the case was discarded by a margin / tie filter

    def label(self, *names):
        self.labels.extend(names)

    def fail(self, signature, detail=""):
        self.violations.append((signature, str(detail)[:600]))

    def check(self, cond, signature, detail=""):
        if not cond:
            self.fail(signature, detail() if callable(detail) else detail)
        return bool(cond)


def call(out, label, fn, *a, **k):
    """Call code under test; an exception on in-domain input is a violation, not a harness error."""
    try:
        return True, fn(*a, **k)
    except Exception as e:  # noqa: BLE001 - deliberately broad, converted into a *violation*
        tb = traceback.extract_tb(e.__traceback__)
        where = ""
        for fr in reversed(tb):
            if "cryocat" in fr.filename:
                where = f"{os.path.basename(fr.filename)}:{fr.name}"
                break
        out.fail(f"exc:{label}:{type(e).__name__}", f"{type(e).__name__}: {e} @ {where}")
        return False, None


def case_hash(case):
    return hashlib.sha1(json.dumps(case, sort_keys=True, default=str).encode()).hexdigest()[:16]


def trunc(obj, n=24, depth=0):
    """Truncate big lists for evidence samples."""
    if isinstance(obj, dict):
        return {k: trunc(v, n, depth + 1) for k, v in obj.items()}
    if isinstance(obj, list):
        if len(obj) > n:
            return [trunc(v, n, depth + 1) for v in obj[:n]] + [f"... {len(obj) - n} more"]
        return [trunc(v, n, depth + 1) for v in obj]
    if isinstance(obj, str) and len(obj) > 600:
        return obj[:600] + f"... {len(obj) - 600} more chars"
    return obj


class Stats:
    def __init__(self):
        self.evaluations = 0
        self.shrink_evaluations = 0
        self.nontrivial = {}  # hash -> size (distinct)
        self.labels = {}
        self.filtered = {}
        self.excluded_known = {}
        self.buckets = {}  # signature -> dict(case, detail, count, shrunk)
        self.samples = []  # (size, case) of non-trivial cases, bounded
        self.budget_hit = False
        self.harness_error = None
        self.corner = 0
        self.faults = {}  # name of an injected failing call -> [times it raised, times it returned]

    def merge(self, o):
        self.evaluations += o.evaluations
        self.shrink_evaluations += o.shrink_evaluations
        self.nontrivial.update(o.nontrivial)
        self.corner += o.corner
        for k, v in o.faults.items():
            c = self.faults.setdefault(k, [0, 0])
            c[0] += v[0]
            c[1] += v[1]
        for d, s in ((self.labels, o.labels), (self.filtered, o.filtered), (self.excluded_known, o.excluded_known)):
            for k, v in s.items():
                d[k] = d.get(k, 0) + v
        for sig, b in o.buckets.items():
            cur = self.buckets.get(sig)
            if cur is None or len(json.dumps(b["case"])) < len(json.dumps(cur["case"])):
                cnt = (cur["count"] if cur else 0) + b["count"]
                self.buckets[sig] = dict(b, count=cnt)
            else:
                cur["count"] += b["count"]
        self.samples.extend(o.samples)
        self.budget_hit = self.budget_hit or o.budget_hit
        self.harness_error = self.harness_error or o.harness_error


class _CaseTimeout(BaseException):
    """raised by the watchdog inside a running case (BaseException: must not be swallowed by `except Exception` on the way)"""


def _on_alarm(signum, frame):
    raise _CaseTimeout()


class HarnessError(Exception):
    pass


class _Target(Exception):
    """Raised inside the hypothesis test to make it shrink one root cause."""


@contextlib.contextmanager
def scratch_cwd():
    old = os.getcwd()
    d = tempfile.mkdtemp(prefix="cryoverif_")
    os.chdir(d)
    try:
        yield d
    finally:
        os.chdir(old)
        shutil.rmtree(d, ignore_errors=True)


def clean_cwd():
    for n in os.listdir("."):
        try:
            if os.path.isdir(n):
                shutil.rmtree(n, ignore_errors=True)
            else:
                os.unlink(n)
        except OSError:
            pass


def evaluate(mod, case, stats, known_open, shrinking=False, corner=False):
    """Run one case, update counters, return list of *new* (not known-open) signatures."""
    buf = io.StringIO()
    limit = float(os.environ.get("VERIF_CASE_TIMEOUT", "120"))
    armed = False
    try:
        if limit > 0 and threading.current_thread() is threading.main_thread():
            # watchdog: a call that never returns (an endless loop in the code under test) is no result at all;
            # without it the whole check would hang instead of reporting
            signal.signal(signal.SIGALRM, _on_alarm)
            signal.setitimer(signal.ITIMER_REAL, limit)
            armed = True
        with contextlib.redirect_stdout(buf), contextlib.redirect_stderr(buf):
            import warnings

            with warnings.catch_warnings():
                warnings.simplefilter("ignore")
                # fault interlude: calls into the anchored functions that are expected to be REJECTED (invalid argument,
                # missing file, ...) run before the case proper; whatever they leave behind - module or class level state,
                # stray files in the working directory, changed library options - must not make the valid calls of the
                # case violate the statement. The interlude is a pure function of the case, so a replay repeats it.
                if hasattr(mod, "fault_calls"):
                    for fname, thunk in mod.fault_calls(case):
                        c = stats.faults.setdefault(fname, [0, 0])
                        try:
                            thunk()
                            c[1] += 1
                        except _CaseTimeout:
                            raise
                        except Exception:
                            c[0] += 1
                out = mod.run(case)
    except _CaseTimeout as e:
        frames = [f for f in traceback.extract_tb(e.__traceback__) if (os.sep + "cryocat" + os.sep) in f.filename]
        where = frames[-1].name if frames else "harness"
        out = Outcome()
        out.fail(f"hang:{where}", f"the case did not finish within {limit:.0f} s (innermost cryoCAT function on the stack: {where})")
    except ValueError as e:
        # a comparison between a returned array and the expected one that numpy cannot even line up means the function
        # handed back an array of the wrong shape: that is a malformed result, not a harness problem
        if "could not be broadcast" not in str(e) and "shape mismatch" not in str(e):
            raise HarnessError(traceback.format_exc() + "\ncase=" + json.dumps(trunc(case), default=str)[:3000])
        tb = [f for f in traceback.extract_tb(e.__traceback__) if os.sep + "props" + os.sep in f.filename]
        where = tb[-1].name if tb else "run"
        out = Outcome()
        out.fail(f"malformed_output:{where}", "returned array does not have the expected shape: " + str(e)[:160])
    except Exception:  # harness / oracle bug: never a VIOLATION
        raise HarnessError(traceback.format_exc() + "\ncase=" + json.dumps(trunc(case), default=str)[:3000])
    finally:
        if armed:
            signal.setitimer(signal.ITIMER_REAL, 0)
        clean_cwd()
    if shrinking:
        stats.shrink_evaluations += 1
    else:
        stats.evaluations += 1
        if corner:
            stats.corner += 1
        if out.filtered:
            stats.filtered[out.filtered] = stats.filtered.get(out.filtered, 0) + 1
            return []
        for l in set(out.labels):
            stats.labels[l] = stats.labels.get(l, 0) + 1
        if out.nontrivial:
            h = case_hash(case)
            if h not in stats.nontrivial:
                size = len(json.dumps(case, default=str))
                stats.nontrivial[h] = size
                if len(stats.samples) < 40:
                    stats.samples.append((size, case))
    new = []
    for sig, detail in out.violations:
        if sig in known_open:
            if not shrinking:
                stats.excluded_known[sig] = stats.excluded_known.get(sig, 0) + 1
            continue
        new.append((sig, detail))
    return new


def _record(stats, sig, detail, case):
    b = stats.buckets.get(sig)
    if b is None:
        stats.buckets[sig] = {"case": case, "detail": detail, "count": 1, "shrunk": False}
    else:
        b["count"] += 1
        if len(json.dumps(case, default=str)) < len(json.dumps(b["case"], default=str)):
            b["case"], b["detail"] = case, detail


def generate(mod, tier, seed, n_examples, seconds, known_open, shrink_seconds, stats=None):
    """Collect-then-shrink loop over one Hypothesis seed stream."""
    import hypothesis
    from hypothesis import HealthCheck, Phase, given, settings
    import hypothesis.internal.conjecture.engine as eng

    eng.MAX_SHRINKING_SECONDS = shrink_seconds
    stats = stats or Stats()
    t_end = time.time() + seconds
    reported = set()
    strat = mod.strategy(tier)
    rnd = 0
    remaining = n_examples
    while remaining > 0 and time.time() < t_end:
        state = {"target": None, "last": None, "n": 0}

        def body(case):
            if state["target"] is None:
                if time.time() > t_end:
                    stats.budget_hit = True
                    return
                state["n"] += 1
                new = evaluate(mod, case, stats, known_open)
                for sig, detail in new:
                    _record(stats, sig, detail, case)
                fresh = [(s, d) for s, d in new if s not in reported]
                if fresh:
                    state["target"] = fresh[0][0]
                    state["last"] = (case, fresh[0][1])
                    raise _Target(fresh[0][0])
            else:
                new = evaluate(mod, case, stats, known_open, shrinking=True)
                for sig, detail in new:
                    if sig == state["target"]:
                        state["last"] = (case, detail)
                        raise _Target(sig)

        test = settings(
            max_examples=remaining,
            deadline=None,
            database=None,
            derandomize=False,
            report_multiple_bugs=False,
            print_blob=False,
            suppress_health_check=list(HealthCheck),
            phases=[Phase.generate, Phase.shrink],
        )(hypothesis.seed(seed * 7919 + rnd)(given(strat)(body)))
        try:
            test()
            remaining = 0
        except _Target:
            pass
        except HarnessError:
            raise
        except BaseException as e:  # Flaky / hypothesis internal complaint while shrinking
            if state["target"] is None:
                raise HarnessError("hypothesis: " + "".join(traceback.format_exception(e))[-3000:])
        if state["target"] is not None:
            sig = state["target"]
            case, detail = state["last"]
            b = stats.buckets[sig]
            if len(json.dumps(case, default=str)) <= len(json.dumps(b["case"], default=str)):
                b["case"], b["detail"] = case, detail
            b["shrunk"] = True
            reported.add(sig)
            remaining -= state["n"]
            rnd += 1
    if time.time() >= t_end and remaining > 0:
        stats.budget_hit = True
    return stats


def _worker(args):
    modname, tier, seed, n, seconds, known_open, shrink_seconds, repo = args
    os.environ["VERIF_REPO"] = repo
    try:
        # a worker must not outlive its check: if the parent is killed (a driver's timeout, an interrupted sweep) while a case
        # loops inside the code under test, the kernel ends the worker too (PR_SET_PDEATHSIG = 1)
        import ctypes

        ctypes.CDLL("libc.so.6", use_errno=True).prctl(1, int(signal.SIGKILL))
    except Exception:
        pass
    try:
        from . import env

        env.prepare()
        mod = importlib.import_module(modname)
        with scratch_cwd():
            st = generate(mod, tier, seed, n, seconds, known_open, shrink_seconds)
        return st
    except HarnessError as e:
        st = Stats()
        st.harness_error = str(e)
        return st
    except Exception:
        st = Stats()
        st.harness_error = traceback.format_exc()
        return st


def load_known(pid):
    path = os.path.join(VERIF, "known_findings.json")
    if not os.path.exists(path):
        return {}, []
    data = json.load(open(path))
    op = {e["signature"]: e for e in data.get("findings", []) if e["property"] == pid and e["status"] == "open"}
    fixed = [e for e in data.get("findings", []) if e["property"] == pid and e["status"] == "fixed"]
    return op, fixed


def write_evidence(mod, tier, seed, stats, wall, extra=None):
    samples = sorted(stats.samples, key=lambda x: x[0])
    picks = []
    if samples:
        for idx in sorted({0, len(samples) // 2, len(samples) - 1}):
            picks.append(trunc(samples[idx][1]))
    ev = {
        "property_id": mod.ID,
        "tier": tier,
        "seed": int(seed),
        "level": "exploration",
        "coverage": {
            "evaluations": stats.evaluations,
            "distinct_nontrivial": len(stats.nontrivial),
            "rule": mod.RULE,
            "samples": picks,
            "label_histogram": dict(sorted(stats.labels.items())),
            "corner_and_regression_cases": stats.corner,
            "shrink_evaluations": stats.shrink_evaluations,
            "filtered_by_margin_rules": stats.filtered,
            "excluded_known": stats.excluded_known,
            "budget_hit": stats.budget_hit,
            "exhaustive": False,
            "exhaustive_subdomains": getattr(mod, "EXHAUSTIVE", None) if tier == "thorough" else None,
            "violation_signatures": {k: v["count"] for k, v in stats.buckets.items()},
            "fault_interludes": {k: {"raised": v[0], "returned": v[1]} for k, v in sorted(stats.faults.items())},
        },
        "assumptions": list(getattr(mod, "ASSUMPTIONS", [])),
        "wall_s": round(wall, 2),
        "violations": len(stats.buckets),
    }
    if extra:
        ev["coverage"].update(extra)
    evdir = os.path.join(VERIF, "evidence")
    if os.environ.get("VERIF_REPO"):  # sensitivity runs against a scratch tree never touch the committed evidence
        evdir = os.path.join(tempfile.gettempdir(), "cryoverif_mutant_evidence")
    os.makedirs(evdir, exist_ok=True)
    path = os.path.join(evdir, f"{mod.ID}.json")
    with open(path + ".tmp", "w") as f:
        json.dump(ev, f, indent=1, default=str)
    os.replace(path + ".tmp", path)
    return path


def main(modname, tier, seed, replay=None, jobs=None):
    from . import env

    env.prepare()
    mod = importlib.import_module(modname)
    pid = mod.ID
    known_open, _fixed = load_known(pid)
    t0 = time.time()
    stats = Stats()

    if replay:
        case = json.load(open(replay))
        if isinstance(case, dict) and "case" in case and "signature" in case:
            case = case["case"]
        with scratch_cwd():
            try:
                new = evaluate(mod, case, stats, {})
            except HarnessError as e:
                print("HARNESS-ERROR\n" + str(e))
                return 2
        if new:
            for sig, detail in new:
                print(f"  {sig}: {detail}")
            print(f"VIOLATION property={pid} replay={replay}")
            return 1
        print(f"replay ok: property={pid} no violation on {replay}")
        return 0

    budget = mod.BUDGET[tier]
    # 1. committed regressions + corner cases (+ exhaustive sub-domains in thorough), bypassing Hypothesis
    regress_dir = os.path.join(VERIF, "regress", pid)
    fixed_cases = []
    if os.path.isdir(regress_dir):
        for n in sorted(os.listdir(regress_dir)):
            if n.endswith(".json"):
                c = json.load(open(os.path.join(regress_dir, n)))
                if isinstance(c, dict) and "case" in c and "signature" in c:
                    c = c["case"]
                fixed_cases.append((os.path.join("regress", pid, n), c))
    try:
        with scratch_cwd():
            for path, c in fixed_cases:
                new = evaluate(mod, c, stats, known_open, corner=True)
                for sig, detail in new:
                    _record(stats, sig, detail, c)
                    stats.buckets[sig]["path"] = path
                    stats.buckets[sig]["shrunk"] = True
            if hasattr(mod, "corner_cases"):
                for c in mod.corner_cases(tier):
                    new = evaluate(mod, c, stats, known_open, corner=True)
                    for sig, detail in new:
                        _record(stats, sig, detail, c)
    except HarnessError as e:
        print("HARNESS-ERROR\n" + str(e))
        return 2

    # 2. generated search
    shrink_seconds = 45 if tier == "quick" else 240
    repo = env.repo_path()
    if tier != "thorough":
        jobs = jobs or int(os.environ.get("VERIF_QUICK_JOBS", "4"))
    if tier == "thorough" or jobs > 1:
        # thorough: every worker spends the whole budget on its own seed stream; quick: the budget is split over the workers
        jobs = jobs or int(os.environ.get("VERIF_JOBS", "16"))
        per = budget["examples"] if tier == "thorough" else -(-budget["examples"] // jobs)
        args = [
            (modname, tier, seed * 1000 + s, per, budget["seconds"], set(known_open), shrink_seconds, repo)
            for s in range(jobs)
        ]
        ctx = mp.get_context("spawn")
        with ctx.Pool(jobs) as pool:
            for st in pool.imap_unordered(_worker, args):
                stats.merge(st)
    else:
        try:
            with scratch_cwd():
                generate(mod, tier, seed * 1000, budget["examples"], budget["seconds"], set(known_open), shrink_seconds, stats)
        except HarnessError as e:
            stats.harness_error = str(e)

    extra = None
    if hasattr(mod, "extra_campaign"):
        try:
            extra = mod.extra_campaign(tier, seed, stats, known_open)
        except HarnessError as e:
            stats.harness_error = str(e)

    wall = time.time() - t0
    if stats.harness_error:
        print("HARNESS-ERROR\n" + stats.harness_error)
        return 2
    write_evidence(mod, tier, seed, stats, wall, extra)

    for sig, e in known_open.items():
        if stats.excluded_known.get(sig):
            print(f"KNOWN-FINDING: property={pid} {e['what']} [signature {sig}, {stats.excluded_known[sig]} cases]")
    rc = 0
    if stats.buckets:
        rsub = "replays_mutant" if os.environ.get("VERIF_REPO") else "replays"
        rdir = os.path.join(VERIF, rsub, pid)
        os.makedirs(rdir, exist_ok=True)
        for sig, b in sorted(stats.buckets.items()):
            path = b.get("path")
            if not path:
                safe = "".join(ch if ch.isalnum() or ch in "-_." else "_" for ch in sig)[:80]
                path = os.path.join(rsub, pid, f"{safe}-{case_hash(b['case'])[:8]}.json")
                with open(os.path.join(VERIF, path), "w") as f:
                    json.dump({"property": pid, "signature": sig, "detail": b["detail"], "case": b["case"]}, f, indent=1, default=str)
            print(f"  {sig} ({b['count']} cases{', shrunk' if b['shrunk'] else ''}): {b['detail']}")
            print(f"VIOLATION property={pid} replay={path}")
        rc = 1
    print(
        f"{pid} {tier}: evaluations={stats.evaluations} nontrivial={len(stats.nontrivial)} "
        f"filtered={sum(stats.filtered.values())} known={sum(stats.excluded_known.values())} "
        f"violations={len(stats.buckets)} wall={wall:.1f}s{' BUDGET-HIT' if stats.budget_hit else ''}"
    )
    return rc
