"""Run one atheris / libFuzzer campaign (a script under fuzz/) as part of a check and merge what it found into the run's statistics."""
import glob
import json
import os
import shutil
import subprocess
import sys
import tempfile

VERIF = os.path.dirname(os.path.dirname(os.path.abspath(__file__)))


def campaign(script_name, what, seeds, stats, known_open, runs, seconds, seed, max_len, parallel=1):
    """parallel > 1: that many independent libFuzzer processes (own corpus directory, seeds seed, seed+1, ...), results summed"""
    script = os.path.join(VERIF, "fuzz", script_name)
    if not os.path.isdir(os.path.join(VERIF, ".deps", "atheris")):
        subprocess.run(["bash", os.path.join(VERIF, "setup.sh")], stdout=subprocess.DEVNULL, stderr=subprocess.DEVNULL)
    if not os.path.isdir(os.path.join(VERIF, ".deps", "atheris")):
        return {"fuzz_campaign": "skipped: atheris could not be installed from the offline wheelhouse"}
    top = tempfile.mkdtemp(prefix="fuzzrun_")
    procs = []
    for k in range(parallel):
        work = os.path.join(top, "w%d" % k)
        corpus = os.path.join(work, "corpus")
        os.makedirs(corpus)
        for i, raw in enumerate(seeds):
            with open(os.path.join(corpus, "seed_%d" % i), "wb") as g:
                g.write(raw)
        findings = os.path.join(work, "findings")
        cmd = [sys.executable, "-W", "ignore", script, findings, corpus, f"-runs={runs}", f"-seed={max(1, int(seed)) * 100 + k}", f"-max_len={max_len}", "-timeout=30",
               f"-max_total_time={seconds}", "-print_final_stats=1", "-verbosity=0"]
        # the target's scratch directory lives (and dies) inside work
        procs.append((findings, subprocess.Popen(cmd, stdout=subprocess.PIPE, stderr=subprocess.STDOUT, text=True,
                                                 env=dict(os.environ, PYTHONPATH=os.path.join(VERIF, ".deps"), TMPDIR=work))))
    info = {"fuzz_campaign": what, "fuzz_runs_requested": runs * parallel, "fuzz_processes": parallel, "fuzz_seed_corpus_files": len(seeds)}
    for findings, p in procs:
        stdout = p.communicate()[0]
        try:
            st_ = json.load(open(os.path.join(findings, "stats.json")))
            for k_, v in st_.items():
                key = "fuzz_" + k_
                if isinstance(v, dict):
                    d = info.setdefault(key, {})
                    for a, b in v.items():
                        d[a] = d.get(a, 0) + b
                else:
                    info[key] = info.get(key, 0) + v
            stats.evaluations += int(st_.get("execs", 0))
        except (OSError, ValueError):
            info["fuzz_stats"] = "unavailable for at least one process"
        cov = [l for l in stdout.splitlines() if "cov:" in l]
        if cov:
            info["fuzz_last_status_line"] = cov[-1][:200]
        found = sorted(glob.glob(os.path.join(findings, "fuzz-*.json")))
        for f in found:
            rec = json.load(open(f))
            sig = rec["signature"]
            if sig in known_open:
                stats.excluded_known[sig] = stats.excluded_known.get(sig, 0) + 1
                continue
            if sig in stats.buckets:
                stats.buckets[sig]["count"] += 1
            else:
                stats.buckets[sig] = {"case": rec["case"], "detail": rec["detail"], "count": 1, "shrunk": False}
        if p.returncode not in (0, 1) and not found and not os.path.isfile(os.path.join(findings, "stats.json")):
            info["fuzz_campaign"] = what + " - a process did not start: " + stdout[-300:]
    shutil.rmtree(top, ignore_errors=True)
    return info
