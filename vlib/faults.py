"""Fault interludes: calls into the anchored functions that a correct cryoCAT REJECTS (or at least cannot complete).

`for_property(ID)` returns the `fault_calls(case)` hook of a property module: a list of (name, thunk). The runner
executes every thunk before the case proper and swallows whatever it raises; nothing is asserted about the failing
call itself (the statements only speak about valid use). What the interlude decides is that a rejected call leaves
nothing behind - module / class level state, defaults mutated in place, library options, stray or truncated files in
the working directory - that makes the following VALID calls of the case violate the statement. All inputs of the
failing calls are constructed here, freshly, so no object of the case is touched.
"""
import os

import numpy as np
import pandas as pd

from . import oracle


def _tiny_motl(n=3):
    from cryocat import cryomotl

    a = np.zeros((n, 20))
    a[:, 3] = np.arange(1, n + 1)  # subtomo_id
    a[:, 4] = 1 + (np.arange(n) % 2)  # tomo_id
    a[:, 5] = 1
    a[:, 7:10] = np.arange(3 * n).reshape(n, 3) + 10.0
    a[:, 16:19] = [[10.0, 20.0, 30.0]] * n
    return cryomotl.Motl(pd.DataFrame(a, columns=oracle.MOTL_COLUMNS))


def _write(name, data):
    with open(name, "wb") as f:
        f.write(data)
    return name


def _motl_common():
    from cryocat import cryomotl

    return [
        ("motl_load_missing_em", lambda: cryomotl.Motl.load("fault_missing.em")),
        ("motl_load_truncated_em", lambda: cryomotl.Motl.load(_write("fault_trunc.em", b"\x06\x00\x00\x05" + b"\x01" * 40))),
        ("motl_load_unknown_type", lambda: cryomotl.Motl.load("fault_missing.em", motl_type="no_such_type")),
        ("motl_from_bad_frame", lambda: cryomotl.Motl(pd.DataFrame({"a": [1.0], "b": [2.0]}))),
        ("motl_write_unknown_type", lambda: _tiny_motl().write_out("fault_out.xyz", motl_type="no_such_type")),
        ("motl_write_into_missing_dir", lambda: _tiny_motl().write_out("fault_no_dir/sub/out.em")),
        ("emmotl_wrong_columns", lambda: cryomotl.EmMotl(_em_with_columns(7))),
    ]


def _em_with_columns(ncol):
    name = "fault_cols.em"
    oracle_write = getattr(oracle, "em_write", None)
    data = np.zeros((1, 2, ncol), dtype=np.float32)
    if oracle_write is not None:
        try:
            oracle_write(name, data)
            return name
        except Exception:
            pass
    import struct

    hdr = bytearray(512)
    hdr[0], hdr[3] = 6, 5
    hdr[4:16] = struct.pack("<3i", ncol, 2, 1)
    _write(name, bytes(hdr) + data.tobytes())
    return name


def _c01():
    return _motl_common()


def _c02():
    from cryocat import starfileio as s

    return [
        ("star_read_missing", lambda: s.Starfile.read("fault_missing.star")),
        ("star_read_no_block", lambda: s.Starfile.read(_write("fault_a.star", b"loop_\n_rlnA #1\n1.0\n"))),
        ("star_read_short_row", lambda: s.Starfile.read(_write("fault_b.star", b"data_x\n\nloop_\n_rlnA #1\n_rlnB #2\n1.0 2.0\n3.0\n"))),
        ("star_read_unknown_id", lambda: s.Starfile.read(_write("fault_c.star", b"data_x\n\nloop_\n_rlnA #1\n1.0\n"), data_id="no_such_block")),
        ("star_write_mismatched", lambda: s.Starfile.write([pd.DataFrame({"rlnA": [1.0]})], "fault_d.star", specifiers=["data_a", "data_b", "data_c"])),
        ("star_write_missing_dir", lambda: s.Starfile.write([pd.DataFrame({"rlnA": [1.0]})], "fault_no_dir/x.star", specifiers=["data_a"])),
        ("star_write_not_frames", lambda: s.Starfile.write([None, 3], "fault_e.star", specifiers=["data_a", "data_b"])),
    ]


def _c03():
    from cryocat import cryomotl

    return _motl_common() + [
        ("relion_missing", lambda: cryomotl.RelionMotl("fault_missing.star")),
        ("relion_bad_version", lambda: cryomotl.RelionMotl(version=99.0).write_out("fault_r.star")),
        ("relion_unparsable_star", lambda: cryomotl.RelionMotl(_write("fault_r2.star", b"data_particles\n\nloop_\n_rlnFoo #1\nabc\n"))),
        ("relion_convert_empty", lambda: cryomotl.RelionMotl(_tiny_motl(), pixel_size=-1.0).write_out("fault_no_dir/r.star")),
    ]


def _sg_frame():
    from cryocat import cryomotl

    f = cryomotl.StopgapMotl.convert_to_sg_motl(_tiny_motl(4).df)
    f["halfset"] = ["A", "B", "A", "B"]
    return f


def _c04():
    from cryocat import cryomotl

    return _motl_common() + [
        ("stopgap_missing", lambda: cryomotl.StopgapMotl("fault_missing.star")),
        ("stopgap_unparsable_star", lambda: cryomotl.StopgapMotl(_write("fault_s.star", b"data_stopgap_motivelist\n\nloop_\n_foo #1\nabc\n"))),
        ("stopgap_write_missing_dir", lambda: cryomotl.StopgapMotl(_tiny_motl()).write_out("fault_no_dir/s.star")),
        ("stopgap_to_stopgap_bad", lambda: cryomotl.StopgapMotl.convert_to_sg_motl(pd.DataFrame({"a": [1.0]}))),
        ("stopgap_to_motl_missing_field", lambda: cryomotl.StopgapMotl().convert_to_motl(_sg_frame().drop(columns=["class"]), keep_halfsets=True)),
        ("stopgap_to_motl_missing_field_plain", lambda: cryomotl.StopgapMotl().convert_to_motl(_sg_frame().drop(columns=["score"]))),
    ]


def _c05():
    return _motl_common() + [
        ("flip_bad_dims", lambda: _tiny_motl().flip_handedness(tomo_dimensions="fault_missing_dims.txt")),
        ("shift_bad_vector", lambda: _tiny_motl().shift_positions(np.zeros((2, 2, 2)))),
        ("update_coordinates_then_bad_rotation", lambda: _tiny_motl().apply_rotation("not a rotation")),
        ("scale_bad_factor", lambda: _tiny_motl().scale_coordinates("x")),
    ]


def _c06():
    from cryocat import geom

    return [
        ("geom_normals_bad_shape", lambda: geom.euler_angles_to_normals(np.zeros((2, 2)))),
        ("geom_n2e_bad_shape", lambda: geom.normals_to_euler_angles(np.zeros((2, 2)))),
        ("geom_angdist_mismatch", lambda: geom.angular_distance(np.zeros((2, 3)), np.zeros((3, 3)))),
        ("geom_angdist_strings", lambda: geom.angular_distance("a", "b")),
        ("geom_c_symmetry_zero", lambda: geom.angular_distance(np.zeros((1, 3)), np.zeros((1, 3)), c_symmetry=0)),
        ("geom_rotation_nan", lambda: geom.euler_angles_to_normals(np.full((2, 3), np.nan))),
        ("geom_angdist_mismatch_radians_xyz", lambda: geom.angular_distance(np.zeros((2, 3)), np.zeros((3, 3)), convention="xyz", degrees=False)),
        ("geom_angdist_bad_convention", lambda: geom.angular_distance(np.zeros((2, 3)), np.zeros((2, 3)), convention="qqq", degrees=False)),
        ("geom_angdist_symmetry_on_triplet", lambda: geom.angular_distance(np.zeros(3), np.zeros(3), convention="ZYZ", degrees=False, c_symmetry=3)),
    ]


def _c07():
    from cryocat import tmana

    return _motl_common() + [
        ("clean_distance_bad_metric", lambda: _tiny_motl().clean_by_distance(2.0, feature_id="tomo_id", metric_id="no_such_column")),
        ("clean_distance_bad_feature", lambda: _tiny_motl().clean_by_distance(2.0, feature_id="no_such_column")),
        ("clean_distance_bad_distance", lambda: _tiny_motl().clean_by_distance("far", feature_id="tomo_id")),
        ("peaks_bad_volume", lambda: tmana.scores_extract_particles(np.zeros((2, 2)), np.zeros((3, 3, 3)), "fault_missing.csv", 1, 0.5)),
    ]


def _c08():
    from cryocat import cryomotl

    return _motl_common() + [
        ("subset_bad_feature", lambda: _tiny_motl().get_motl_subset([1], feature_id="no_such_column")),
        ("remove_bad_feature", lambda: _tiny_motl().remove_feature("no_such_column", [1])),
        ("intersection_bad_feature", lambda: cryomotl.Motl.get_motl_intersection(_tiny_motl(), _tiny_motl(), feature_id="no_such_column")),
        ("merge_bad_member", lambda: cryomotl.Motl.merge_and_renumber([_tiny_motl(), "not a motl", 3])),
        ("split_bad_feature", lambda: _tiny_motl().split_by_feature("no_such_column")),
        ("renumber_objects_bad", lambda: _tiny_motl().renumber_objects_sequentially(starting_number="x")),
    ]


def _c09():
    return _motl_common() + [
        ("oob_missing_dims", lambda: _tiny_motl().remove_out_of_bounds_particles("fault_missing_dims.txt")),
        ("oob_bad_dims", lambda: _tiny_motl().remove_out_of_bounds_particles(np.zeros((2, 2, 2)))),
        ("tomo_mask_missing", lambda: _tiny_motl().clean_by_tomo_mask([1, 2], "fault_missing_mask.mrc")),
        ("tomo_mask_mismatch", lambda: _tiny_motl().clean_by_tomo_mask([1, 2, 3], ["fault_a.mrc"])),
        ("points_bad", lambda: _tiny_motl().clean_by_distance_to_points("fault_missing_points.csv", 2.0)),
        ("points_bad_radius", lambda: _tiny_motl().clean_by_distance_to_points(np.zeros((2, 3)), "far")),
        ("oob_bad_boundary", lambda: _tiny_motl().remove_out_of_bounds_particles(np.array([50, 50, 50]), boundary_type="no_such_type")),
    ]


def _c10():
    return _motl_common() + [
        ("symm_bad_string", lambda: _tiny_motl().split_in_asymmetric_subunits("Q7", (1.0, 0.0, 0.0))),
        ("symm_zero", lambda: _tiny_motl().split_in_asymmetric_subunits(0, (1.0, 0.0, 0.0))),
        ("symm_bad_offset", lambda: _tiny_motl().split_in_asymmetric_subunits(3, "offset")),
        ("symm_short_offset", lambda: _tiny_motl().split_in_asymmetric_subunits(3, (1.0,))),
    ]


def _map_common():
    from cryocat import cryomap

    return [
        ("map_read_missing", lambda: cryomap.read("fault_missing.mrc")),
        ("map_read_missing_em", lambda: cryomap.read("fault_missing.em")),
        ("map_read_unknown_ext", lambda: cryomap.read(_write("fault_map.xyz", b"0" * 64))),
        ("map_read_truncated_mrc", lambda: cryomap.read(_write("fault_trunc.mrc", b"\x04\x00\x00\x00" * 30))),
        ("map_read_truncated_em", lambda: cryomap.read(_write("fault_trunc_map.em", b"\x06\x00\x00\x05" + b"\x02" * 30))),
        ("map_write_unknown_ext", lambda: cryomap.write(np.zeros((2, 2, 2), dtype=np.float32), "fault_out.xyz")),
        ("map_write_missing_dir", lambda: cryomap.write(np.zeros((2, 2, 2), dtype=np.float32), "fault_no_dir/x.mrc")),
        ("map_write_no_overwrite", lambda: (cryomap.write(np.zeros((2, 2, 2), dtype=np.float32), "fault_twice.mrc"), cryomap.write(np.ones((2, 2, 2), dtype=np.float32), "fault_twice.mrc", overwrite=False))),
        ("map_write_bad_dtype", lambda: cryomap.write(np.zeros((2, 2, 2)), "fault_dt.mrc", data_type="no_such_type")),
    ]


def _c11():
    return _map_common()


def _c12():
    from cryocat import cryomap

    v = np.zeros((8, 8, 8), dtype=np.float32)
    return _map_common()[:3] + [
        ("lowpass_no_cutoff", lambda: cryomap.lowpass(v)),
        ("highpass_no_cutoff", lambda: cryomap.highpass(v)),
        ("bandpass_no_cutoff", lambda: cryomap.bandpass(v)),
        ("bandpass_lowpass_edge_only", lambda: cryomap.bandpass(v, lp_fourier_pixels=3)),
        ("bandpass_highpass_edge_only", lambda: cryomap.bandpass(v, hp_fourier_pixels=1)),
        ("bandpass_lowpass_resolution_without_pixel_size", lambda: cryomap.bandpass(v, lp_target_resolution=10.0, hp_fourier_pixels=1)),
        ("lowpass_resolution_without_pixel_size", lambda: cryomap.lowpass(v, target_resolution=10.0)),
        ("lowpass_2d", lambda: cryomap.lowpass(np.zeros((8, 8), dtype=np.float32), fourier_pixels=2)),
        ("lowpass_missing_file", lambda: cryomap.lowpass("fault_missing.mrc", fourier_pixels=2)),
        ("lowpass_bad_output", lambda: cryomap.lowpass(v, fourier_pixels=2, output_name="fault_no_dir/x.mrc")),
    ]


def _c13():
    from cryocat import cryomask

    return [
        ("mask_bad_shape_string", lambda: cryomask.generate_mask("no_such_shape_r3", 8)),
        ("mask_sphere_bad_size", lambda: cryomask.spherical_mask("abc")),
        ("mask_union_mismatch", lambda: cryomask.union([np.zeros((4, 4, 4)), np.zeros((5, 5, 5))])),
        ("mask_subtraction_mismatch", lambda: cryomask.subtraction([np.zeros((4, 4, 4)), np.zeros((5, 5, 5))])),
        ("mask_intersection_missing", lambda: cryomask.intersection(["fault_missing_a.em", "fault_missing_b.em"])),
        ("mask_ellipsoid_bad_radii", lambda: cryomask.ellipsoid_mask(8, radii=(1, 2))),
        ("mask_cylinder_bad_output", lambda: cryomask.cylindrical_mask(8, radius=2, height=4, output_name="fault_no_dir/c.em")),
        ("mask_sphere_bad_output", lambda: cryomask.spherical_mask(8, radius=2, output_name="fault_no_dir/s.em")),
    ]


def _c14():
    from cryocat import cryomap

    v = np.zeros((6, 6, 6), dtype=np.float32)
    return _map_common()[:3] + [
        ("rotate_no_rotation", lambda: cryomap.rotate(v)),
        ("rotate_bad_angles", lambda: cryomap.rotate(v, rotation_angles=(1.0, 2.0))),
        ("rotate_missing", lambda: cryomap.rotate("fault_missing.mrc", rotation_angles=(1.0, 2.0, 3.0))),
        ("extract_bad_coord", lambda: cryomap.extract_subvolume(v, (1, 2), (2, 2, 2))),
        ("place_object_no_volume", lambda: cryomap.place_object(np.ones((2, 2, 2)), _tiny_motl())),
        ("symmetrize_bad", lambda: cryomap.symmetrize_volume(v, "Q7")),
        ("crop_bad", lambda: cryomap.crop(v, (2, 2))),
        ("pad_smaller", lambda: cryomap.pad(v, (2, 2))),
    ]


def _stack_common():
    from cryocat import tiltstack

    s = np.arange(3 * 4 * 4, dtype=np.float32).reshape(3, 4, 4)
    return [
        ("stack_missing", lambda: tiltstack.TiltStack("fault_missing.mrc")),
        ("stack_bad_order", lambda: tiltstack.TiltStack(s, input_order="abc")),
        ("stack_sort_wrong_count", lambda: tiltstack.sort_tilts_by_angle(s, np.array([1.0, 2.0]))),
        ("stack_remove_out_of_range", lambda: tiltstack.remove_tilts(s, [99])),
        ("stack_remove_missing_file", lambda: tiltstack.remove_tilts(s, "fault_missing_idx.txt")),
        ("stack_bin_bad", lambda: tiltstack.bin(s, "x")),
        ("stack_crop_bad_output", lambda: tiltstack.crop(s, 2, 2, output_file="fault_no_dir/c.mrc")),
        ("stack_merge_nothing", lambda: tiltstack.merge("fault_no_such_*.mrc")),
        ("stack_flip_bad_axes", lambda: tiltstack.flip_along_axes(s, ["q"])),
        ("stack_flip_bad_second_axis", lambda: tiltstack.flip_along_axes(s, ["x", "q"])),
        ("stack_flip_bad_third_axis", lambda: tiltstack.flip_along_axes(s, ["y", "z", "q"])),
        ("stack_remove_half_valid", lambda: tiltstack.remove_tilts(s, [1, 99])),
        ("stack_sort_bad_output", lambda: tiltstack.sort_tilts_by_angle(s, np.array([3.0, 1.0, 2.0]), output_file="fault_no_dir/s.mrc")),
    ]


def _c15():
    return _stack_common()


def _c16():
    from cryocat import tiltstack

    s = np.ones((3, 4, 4), dtype=np.float32)
    return _stack_common()[:3] + [
        ("dose_wrong_count", lambda: tiltstack.dose_filter(s, 1.0, np.array([1.0, 2.0]))),
        ("dose_missing_file", lambda: tiltstack.dose_filter(s, 1.0, "fault_missing_dose.txt")),
        ("dose_bad_pixel", lambda: tiltstack.dose_filter(s, "x", np.array([1.0, 2.0, 3.0]))),
        ("dose_bad_output", lambda: tiltstack.dose_filter(s, 1.0, np.array([1.0, 2.0, 3.0]), output_file="fault_no_dir/d.mrc")),
        ("dose_single_bad", lambda: tiltstack.dose_filter_single_image(np.ones((4, 4)), 1.0, np.ones((3, 3)))),
    ]


def _c17():
    from cryocat import ioutils, wedgeutils
    from cryocat import mdoc as md

    bad = b"PixelSpacing = 1.0\n\n[ZValue = 0]\nTiltAngle = 1.0\nBroken line without equals\n[ZValue = \n"
    return [
        ("mdoc_missing", lambda: md.Mdoc("fault_missing.mdoc")),
        ("mdoc_broken", lambda: md.Mdoc(_write("fault_broken.mdoc", bad))),
        ("mdoc_no_sections", lambda: md.Mdoc(_write("fault_empty.mdoc", b"PixelSpacing = 1.0\n")).write("fault_no_dir/x.mdoc")),
        ("mdoc_remove_missing", lambda: md.remove_images("fault_missing.mdoc", [1])),
        ("tlt_missing", lambda: ioutils.tlt_load("fault_missing.tlt")),
        ("tlt_garbage", lambda: ioutils.tlt_load(_write("fault_g.tlt", b"abc def\nghi\n"))),
        ("defocus_missing", lambda: ioutils.defocus_load("fault_missing.defocus")),
        ("defocus_unknown_type", lambda: ioutils.defocus_load(_write("fault_d.txt", b"1 2 3\n"), file_type="no_such_type")),
        ("dose_missing", lambda: ioutils.total_dose_load("fault_missing_dose.txt")),
        ("dims_missing", lambda: ioutils.dimensions_load("fault_missing_dims.txt")),
        ("wedge_sg_missing", lambda: wedgeutils.load_wedge_list_sg("fault_missing_wedge.star")),
        ("wedge_em_missing", lambda: wedgeutils.load_wedge_list_em("fault_missing_wedge.em")),
        ("wedge_create_missing", lambda: wedgeutils.create_wedge_list_sg(1, [4, 4, 4], 1.0, "fault_missing.tlt")),
    ]


def _c18():
    from cryocat import nnana

    return _motl_common() + [
        ("nn_bad_feature", lambda: nnana.get_nn_stats(_tiny_motl(), _tiny_motl(), feature_id="no_such_column")),
        ("nn_bad_rotation_type", lambda: nnana.get_nn_stats(_tiny_motl(), _tiny_motl(), rotation_type="no_such_type")),
        ("nn_bad_input", lambda: nnana.get_nn_stats("fault_missing_a.em", "fault_missing_b.em")),
        ("nn_huge_number", lambda: nnana.get_nn_stats(_tiny_motl(), _tiny_motl(), nn_number=50)),
        ("nn_within_bad_radius", lambda: nnana.get_nn_stats_within_radius(_tiny_motl(), "x")),
        ("nn_distances_bad_rotation_type", lambda: nnana.get_nn_distances(_tiny_motl(5), _tiny_motl(4), rotation_type="no_such_type")),
        ("nn_rotations_bad_type", lambda: nnana.get_nn_rotations(_tiny_motl(5), _tiny_motl(4), type_id="no_such_type")),
    ]


def _c19():
    from cryocat import ribana

    return _motl_common() + [
        ("trace_missing", lambda: ribana.trace_chains("fault_missing_a.em", "fault_missing_b.em", 5.0, 1.0)),
        ("trace_bad_exit", lambda: ribana.trace_chains(_tiny_motl(), "fault_missing_b.em", 5.0, 1.0)),
        ("trace_bad_feature", lambda: ribana.trace_chains(_tiny_motl(), _tiny_motl(), 5.0, 1.0, feature="no_such_column")),
        ("trace_bad_distance", lambda: ribana.trace_chains(_tiny_motl(), _tiny_motl(), "far", 1.0)),
        ("trace_bad_store", lambda: ribana.trace_chains(_tiny_motl(), _tiny_motl(), 50.0, 0.0, store_idx1="no_such_column")),
        ("trace_bad_output", lambda: ribana.trace_chains(_tiny_motl(), _tiny_motl(), 50.0, 0.0, output_motl="fault_no_dir/t.em")),
    ]


def _c20():
    from cryocat import memthick

    P = np.array([[1.0, 1.0, 1.0], [1.0, 1.0, 4.0], [2.0, 2.0, 1.0]])
    N = np.array([[0.0, 0.0, 1.0], [0.0, 0.0, -1.0], [0.0, 0.0, 1.0]])
    a = np.array([True, False, True])
    b = ~a
    return [
        ("thickness_bad_direction", lambda: memthick.measure_thickness_cpu(P.copy(), N.copy(), a.copy(), b.copy(), 1.0, direction="no_such_direction")),
        ("thickness_mismatched_masks", lambda: memthick.measure_thickness_cpu(P.copy(), N.copy(), a[:2].copy(), b.copy(), 1.0)),
        ("thickness_mismatched_normals", lambda: memthick.measure_thickness_cpu(P.copy(), N[:2].copy(), a.copy(), b.copy(), 1.0)),
        ("thickness_bad_voxel", lambda: memthick.measure_thickness_cpu(P.copy(), N.copy(), a.copy(), b.copy(), "x")),
        ("thickness_bad_points", lambda: memthick.measure_thickness_cpu("points", N.copy(), a.copy(), b.copy(), 1.0)),
        ("thickness_no_targets", lambda: memthick.measure_thickness_cpu(P.copy(), N.copy(), a.copy(), np.zeros(3, dtype=bool), 1.0)),
        ("segmentation_missing", lambda: memthick.read_segmentation("fault_missing_seg.mrc")),
    ]


_BUILDERS = {f"C{i:02d}": globals()[f"_c{i:02d}"] for i in range(1, 21)}


def _c20_case(case):
    """rejected calls of the pairing step for exactly the number of points of the case that follows"""
    from cryocat import memthick

    if not isinstance(case, dict) or "n_side" not in case:
        return []
    n = 2 * int(case["n_side"]) ** 2
    return [
        ("pairing_no_voxel_size", lambda: memthick.process_matches_cpu2cpu([(1.0, i, n - 1 - i) for i in range(n // 2)], n, None)),
        ("pairing_index_out_of_range", lambda: memthick.process_matches_cpu2cpu([(1.0, 0, n - 1), (2.0, 1, n - 2), (3.0, n + 5, 2)], n, 1.0)),
    ]


_CASE_BUILDERS = {"C20": _c20_case}


def for_property(pid):
    cache = {}

    def fault_calls(case):
        if "v" not in cache:
            cache["v"] = _BUILDERS[pid]()
        extra = _CASE_BUILDERS[pid](case) if pid in _CASE_BUILDERS else []
        return cache["v"] + extra

    return fault_calls


def scribble(obj):
    """Overwrite, in place and through ordinary assignment, a result the case is finished with (a particle list, a table or
    an array).  A result that shares its storage with its source, with a cache or with a later result drags those along;
    the checks that follow (source unchanged, repeated call still right) then see it."""
    try:
        df = obj.df if hasattr(obj, "df") else obj
        if isinstance(df, pd.DataFrame):
            for c in list(df.columns):
                df[c] = -12345.0
            return
        if isinstance(df, np.ndarray) and df.flags.writeable and df.size:
            df[...] = np.asarray(-123, dtype=df.dtype) if df.dtype.kind in "iuf" else df
    except Exception:
        pass
