"""Process environment: code under test comes from /repo's working tree (or $VERIF_REPO for the sensitivity driver)."""
import os
import sys

VERIF = os.path.dirname(os.path.dirname(os.path.abspath(__file__)))


def repo_path():
    return os.environ.get("VERIF_REPO") or "/repo"


def prepare():
    os.environ.setdefault("MPLBACKEND", "Agg")
    os.environ["NUMBA_DISABLE_CACHING"] = "1"
    os.environ.setdefault("OMP_NUM_THREADS", "1")
    os.environ.setdefault("OPENBLAS_NUM_THREADS", "1")
    os.environ.setdefault("MKL_NUM_THREADS", "1")
    os.environ.setdefault("NUMBA_NUM_THREADS", "1")
    sys.dont_write_bytecode = True
    deps = os.path.join(VERIF, ".deps")
    for p in (deps, VERIF, repo_path()):
        if p in sys.path:
            sys.path.remove(p)
        sys.path.insert(0, p)
    import cryocat  # noqa: F401

    got = os.path.dirname(os.path.dirname(os.path.abspath(cryocat.__file__)))
    if os.path.realpath(got) != os.path.realpath(repo_path()):
        raise RuntimeError(f"cryocat imported from {got}, expected {repo_path()}")
