import argparse
import glob
import os
import sys
import traceback

VERIF = os.path.dirname(os.path.dirname(os.path.abspath(__file__)))


def main():
    ap = argparse.ArgumentParser()
    ap.add_argument("pid")
    ap.add_argument("--tier", default=os.environ.get("VERIF_TIER", "quick"), choices=["quick", "thorough"])
    ap.add_argument("--replay")
    ap.add_argument("--jobs", type=int)
    a = ap.parse_args()
    seed = int(os.environ.get("VERIF_SEED", "1") or "1")
    mods = glob.glob(os.path.join(VERIF, "props", a.pid.lower() + "_*.py"))
    if len(mods) != 1:
        print(f"HARNESS-ERROR no unique module for {a.pid}: {mods}")
        return 2
    modname = "props." + os.path.basename(mods[0])[:-3]
    sys.path.insert(0, VERIF)
    from vlib import runner

    try:
        return runner.main(modname, a.tier, seed, replay=a.replay, jobs=a.jobs)
    except Exception:
        print("HARNESS-ERROR\n" + traceback.format_exc())
        return 2


if __name__ == "__main__":
    sys.exit(main())
