"""Independent reference code.  Nothing in here calls cryoCAT, emfile, mrcfile, or scipy's Rotation."""
import math
import struct

import numpy as np

MOTL_COLUMNS = [
    "score", "geom1", "geom2", "subtomo_id", "tomo_id", "object_id", "subtomo_mean", "x", "y", "z",
    "shift_x", "shift_y", "shift_z", "geom3", "geom4", "geom5", "phi", "psi", "theta", "class",
]

# --------------------------------------------------------------------------------------------------
# byte-level parsers
# --------------------------------------------------------------------------------------------------
EM_TYPES = {1: np.int8, 2: np.int16, 4: np.int32, 5: np.float32, 8: np.complex64, 9: np.float64}


def em_read(path):
    """EM format: 512-byte header; byte 0 machine code (6 = little endian PC), byte 3 data type code,
    int32 xdim, ydim, zdim at byte offsets 4, 8, 12; data with x varying fastest.
    Returns dict(dtype, dims=(x,y,z), data[x,y,z], nbytes)."""
    raw = open(path, "rb").read()
    if len(raw) < 512:
        raise ValueError("EM file shorter than header")
    machine, _, _, tcode = raw[0], raw[1], raw[2], raw[3]
    # machine coding byte of the EM/TOM definition: 1 = VAX and 6 = PC store little-endian, 0 = OS-9, 2 = Convex, 3 = SGI,
    # 5 = Mac big-endian; the rest of the header and the data have to be read accordingly
    endian = "<" if machine in (1, 6) else ">"
    x, y, z = struct.unpack(endian + "iii", raw[4:16])
    dt = np.dtype(EM_TYPES[tcode]).newbyteorder(endian)
    n = x * y * z
    body = raw[512:]
    flat = np.frombuffer(body[: n * dt.itemsize], dtype=dt)
    if flat.size != n:
        raise ValueError(f"EM data truncated: {flat.size} != {n}")
    data = flat.reshape((z, y, x)).transpose(2, 1, 0)  # -> [x,y,z]
    return {"dtype": np.dtype(EM_TYPES[tcode]), "dims": (x, y, z), "data": data, "nbytes": len(raw), "machine": machine}

def em_motl_mismatch(path, df):
    """None if the EM motl file at path holds the particle table df (float32, 20 canonical fields, row order), else what differs."""
    import os
    if not os.path.isfile(path):
        return "file_missing"
    try:
        em = em_read(path)
    except Exception as e:
        return "not_valid_em"
    if em["dims"] != (20, len(df), 1):
        return "dims"
    want = df[MOTL_COLUMNS].to_numpy(dtype=np.float32)
    return None if np.array_equal(em["data"][:, :, 0].T, np.where(np.isnan(want), np.float32(0), want)) else "values"


MRC_MODES = {0: np.int8, 1: np.int16, 2: np.float32, 6: np.uint16, 12: np.float16}


def mrc_read(path):
    """MRC2014: 1024-byte header, int32 nx,ny,nz,mode at 0..15, nsymbt at byte 92, 'MAP ' at 208.
    Returns dict(mode, dtype, dims=(nx,ny,nz), data[x,y,z])."""
    raw = open(path, "rb").read()
    if len(raw) < 1024:
        raise ValueError("MRC file shorter than header")
    nx, ny, nz, mode = struct.unpack("<iiii", raw[0:16])
    nsymbt = struct.unpack("<i", raw[92:96])[0]
    dt = np.dtype(MRC_MODES[mode]).newbyteorder("<")
    n = nx * ny * nz
    body = raw[1024 + nsymbt:]
    flat = np.frombuffer(body[: n * dt.itemsize], dtype=dt)
    if flat.size != n:
        raise ValueError(f"MRC data truncated: {flat.size} != {n}")
    data = flat.reshape((nz, ny, nx)).transpose(2, 1, 0)
    return {"mode": mode, "dtype": np.dtype(MRC_MODES[mode]), "dims": (nx, ny, nz), "data": data,
            "map": raw[208:212], "nbytes": len(raw), "nsymbt": nsymbt}


def mrc_write(path, data_xyz):
    """Independent minimal MRC2014 writer (data[x,y,z], float32 or int16 or int8) for file-input cases."""
    a = np.asarray(data_xyz)
    mode = {np.dtype(np.int8): 0, np.dtype(np.int16): 1, np.dtype(np.float32): 2}[a.dtype]
    nx, ny, nz = a.shape
    hdr = bytearray(1024)
    struct.pack_into("<iiii", hdr, 0, nx, ny, nz, mode)
    struct.pack_into("<iii", hdr, 28, nx, ny, nz)  # mx,my,mz
    struct.pack_into("<fff", hdr, 40, float(nx), float(ny), float(nz))  # cella
    struct.pack_into("<fff", hdr, 52, 90.0, 90.0, 90.0)
    struct.pack_into("<iii", hdr, 64, 1, 2, 3)  # mapc, mapr, maps
    af = a.astype(np.float64)
    struct.pack_into("<fff", hdr, 76, float(af.min()), float(af.max()), float(af.mean()))
    struct.pack_into("<i", hdr, 88, 1)  # ispg
    struct.pack_into("<i", hdr, 92, 0)  # nsymbt
    hdr[104:108] = b"\0\0\0\0"
    struct.pack_into("<i", hdr, 108, 20140)  # nversion
    hdr[208:212] = b"MAP "
    hdr[212:216] = bytes([0x44, 0x44, 0x00, 0x00])
    struct.pack_into("<f", hdr, 216, float(af.std()))
    with open(path, "wb") as f:
        f.write(bytes(hdr))
        f.write(np.ascontiguousarray(a.transpose(2, 1, 0)).astype(a.dtype.newbyteorder("<")).tobytes())


def em_write(path, data_xyz):
    a = np.asarray(data_xyz)
    code = {np.dtype(np.int8): 1, np.dtype(np.int16): 2, np.dtype(np.float32): 5}[a.dtype]
    hdr = bytearray(512)
    hdr[0] = 6
    hdr[3] = code
    struct.pack_into("<iii", hdr, 4, *a.shape)
    with open(path, "wb") as f:
        f.write(bytes(hdr))
        f.write(np.ascontiguousarray(a.transpose(2, 1, 0)).astype(a.dtype.newbyteorder("<")).tobytes())


# --------------------------------------------------------------------------------------------------
# rotation algebra (explicit matrices)
# --------------------------------------------------------------------------------------------------
def Rz(a_deg):
    a = math.radians(a_deg)
    c, s = math.cos(a), math.sin(a)
    return np.array([[c, -s, 0.0], [s, c, 0.0], [0.0, 0.0, 1.0]])


def Rx(a_deg):
    a = math.radians(a_deg)
    c, s = math.cos(a), math.sin(a)
    return np.array([[1.0, 0.0, 0.0], [0.0, c, -s], [0.0, s, c]])


def Ry(a_deg):
    a = math.radians(a_deg)
    c, s = math.cos(a), math.sin(a)
    return np.array([[c, 0.0, s], [0.0, 1.0, 0.0], [-s, 0.0, c]])


def R_cc(phi, theta, psi):
    """cryoCAT / TOM orientation of a particle with Euler angles (phi, theta, psi):
    extrinsic zxz: first Rz(phi), then Rx(theta), then Rz(psi)  ->  R = Rz(psi) Rx(theta) Rz(phi)."""
    return Rz(psi) @ Rx(theta) @ Rz(phi)


def R_cc_batch(angles):
    a = np.radians(np.asarray(angles, dtype=float).reshape(-1, 3))
    cph, sph = np.cos(a[:, 0]), np.sin(a[:, 0])
    cth, sth = np.cos(a[:, 1]), np.sin(a[:, 1])
    cps, sps = np.cos(a[:, 2]), np.sin(a[:, 2])
    n = a.shape[0]
    Zphi = np.zeros((n, 3, 3)); Zphi[:, 0, 0] = cph; Zphi[:, 0, 1] = -sph; Zphi[:, 1, 0] = sph; Zphi[:, 1, 1] = cph; Zphi[:, 2, 2] = 1
    X = np.zeros((n, 3, 3)); X[:, 0, 0] = 1; X[:, 1, 1] = cth; X[:, 1, 2] = -sth; X[:, 2, 1] = sth; X[:, 2, 2] = cth
    Zpsi = np.zeros((n, 3, 3)); Zpsi[:, 0, 0] = cps; Zpsi[:, 0, 1] = -sps; Zpsi[:, 1, 0] = sps; Zpsi[:, 1, 1] = cps; Zpsi[:, 2, 2] = 1
    return Zpsi @ X @ Zphi


def R_relion(rot, tilt, psi):
    """RELION: A = Rz(-psi)... RELION's Euler matrix maps the particle to the reference:
    A = Rz(psi)^T ... we use the documented composition: intrinsic ZYZ with (rot, tilt, psi),
    i.e. extrinsic matrix  Rz(rot) Ry(tilt) Rz(psi) as a plain product (convention stated in DESIGN C03)."""
    return Rz(rot) @ Ry(tilt) @ Rz(psi)


def rot_angle_deg(M):
    """Rotation angle of a rotation matrix, well conditioned at 0 and 180."""
    M = np.asarray(M)
    s = 0.5 * math.sqrt((M[2, 1] - M[1, 2]) ** 2 + (M[0, 2] - M[2, 0]) ** 2 + (M[1, 0] - M[0, 1]) ** 2)
    c = 0.5 * (M[0, 0] + M[1, 1] + M[2, 2] - 1.0)
    return math.degrees(math.atan2(s, c))


def rot_angle_deg_batch(M):
    M = np.asarray(M)
    s = 0.5 * np.sqrt((M[:, 2, 1] - M[:, 1, 2]) ** 2 + (M[:, 0, 2] - M[:, 2, 0]) ** 2 + (M[:, 1, 0] - M[:, 0, 1]) ** 2)
    c = 0.5 * (M[:, 0, 0] + M[:, 1, 1] + M[:, 2, 2] - 1.0)
    return np.degrees(np.arctan2(s, c))


def angle_between_deg(u, v):
    u = np.asarray(u, float); v = np.asarray(v, float)
    cr = np.linalg.norm(np.cross(u, v))
    return math.degrees(math.atan2(cr, float(np.dot(u, v))))


def quat_to_matrix(q):
    """q = (x, y, z, w), any non-zero length."""
    x, y, z, w = [float(t) for t in q]
    n = x * x + y * y + z * z + w * w
    s = 2.0 / n
    return np.array([
        [1 - s * (y * y + z * z), s * (x * y - z * w), s * (x * z + y * w)],
        [s * (x * y + z * w), 1 - s * (x * x + z * z), s * (y * z - x * w)],
        [s * (x * z - y * w), s * (y * z + x * w), 1 - s * (x * x + y * y)],
    ])


def matrix_to_zxz(M):
    """Euler angles (phi, theta, psi) in degrees with  M = Rz(psi) Rx(theta) Rz(phi)."""
    M = np.asarray(M, float)
    ct = max(-1.0, min(1.0, M[2, 2]))
    st = math.hypot(M[2, 0], M[2, 1])
    theta = math.degrees(math.atan2(st, ct))
    if st > 1e-9:
        # M[2,0] = sin(theta) sin(phi), M[2,1] = sin(theta) cos(phi); M[0,2] = sin(psi) sin(theta), M[1,2] = -cos(psi) sin(theta)
        phi = math.degrees(math.atan2(M[2, 0], M[2, 1]))
        psi = math.degrees(math.atan2(M[0, 2], -M[1, 2]))
    else:
        psi = 0.0
        if ct > 0:
            phi = math.degrees(math.atan2(M[1, 0], M[0, 0]))
        else:
            # theta = 180: M = Rx(180) Rz(phi) = diag(1,-1,-1) Rz(phi)
            phi = math.degrees(math.atan2(-M[1, 0], M[0, 0]))
    return phi, theta, psi


def cube_rotations():
    """The 24 proper rotations of the cube as integer matrices."""
    import itertools

    out = []
    for perm in itertools.permutations(range(3)):
        for signs in itertools.product((1, -1), repeat=3):
            M = np.zeros((3, 3), dtype=int)
            for r in range(3):
                M[r, perm[r]] = signs[r]
            if round(np.linalg.det(M)) == 1:
                out.append(M)
    return out


def self_test():
    """Cross-check the convention against scipy once (used by `./check selftest`, not by any oracle)."""
    from scipy.spatial.transform import Rotation as R

    rng = np.random.default_rng(0)
    for _ in range(200):
        a = rng.uniform(-360, 360, 3)
        M = R.from_euler("zxz", a, degrees=True).as_matrix()
        assert np.allclose(M, R_cc(*a), atol=1e-12)
        assert np.allclose(R_cc(*matrix_to_zxz(M)), M, atol=1e-9)
        q = R.from_euler("zxz", a, degrees=True).as_quat()
        assert np.allclose(quat_to_matrix(q), M, atol=1e-12)
        assert abs(rot_angle_deg(M) - np.degrees(R.from_matrix(M).magnitude())) < 1e-6
    for th in (0.0, 180.0, -180.0):
        M = R_cc(33.0, th, 71.0)
        assert np.allclose(R_cc(*matrix_to_zxz(M)), M, atol=1e-9)
    assert np.allclose(R_cc_batch([[10, 20, 30]])[0], R_cc(10, 20, 30))
    assert len(cube_rotations()) == 24
    return True


# --------------------------------------------------------------------------------------------------
# STAR subset tokenizer (line oriented; written from the format description, not from cryoCAT's reader)
# --------------------------------------------------------------------------------------------------
def star_tokenize(text):
    """Blocks of the STAR subset of property C02.

    Grammar (line oriented): blank lines and lines whose first non-blank character is '#' are ignorable wherever
    they are permitted (before a block, after the labels, between blocks).  A block is: one line holding the block
    name; ignorable lines; a line `loop_`; label lines `_name [#comment]` (one label per line); ignorable lines; then
    row lines (whitespace separated tokens) up to the next ignorable line or the end of the text.
    Returns a list of {"spec": str, "labels": [str], "label_comments": [str|None], "rows": [[str]]}.
    Raises ValueError on text outside this subset (the harness then reports a generator bug, exit 2).
    """
    lines = text.replace("\r\n", "\n").split("\n")
    blocks = []
    state = "top"
    cur = None
    for ln, raw in enumerate(lines, 1):
        stripped = raw.strip(" \t\r\f\v")
        ignorable = stripped == "" or stripped.startswith("#")
        if state == "top":
            if ignorable:
                continue
            toks = stripped.split()
            if len(toks) != 1 or "#" in stripped:
                raise ValueError(f"line {ln}: expected a block name, got {raw!r}")
            cur = {"spec": toks[0], "labels": [], "label_comments": [], "rows": []}
            blocks.append(cur)
            state = "want_loop"
        elif state == "want_loop":
            if ignorable:
                continue
            if stripped != "loop_":
                raise ValueError(f"line {ln}: expected loop_, got {raw!r}")
            state = "labels"
        elif state == "labels":
            if stripped.startswith("_"):
                body, sep, com = stripped.partition("#")
                name = body.split()
                if len(name) != 1:
                    raise ValueError(f"line {ln}: bad label line {raw!r}")
                cur["labels"].append(name[0][1:])
                cur["label_comments"].append(com.strip() if sep else None)
            elif ignorable:
                state = "after_labels"
            else:
                if not cur["labels"]:
                    raise ValueError(f"line {ln}: loop without labels")
                if "#" in stripped:
                    raise ValueError(f"line {ln}: comment on a data row is outside the subset")
                cur["rows"].append(stripped.split())
                state = "rows"
        elif state == "after_labels":
            if ignorable:
                continue
            if "#" in stripped:
                raise ValueError(f"line {ln}: comment on a data row is outside the subset")
            cur["rows"].append(stripped.split())
            state = "rows"
        elif state == "rows":
            if ignorable:
                state = "top"
                continue
            if "#" in stripped:
                raise ValueError(f"line {ln}: comment on a data row is outside the subset")
            cur["rows"].append(stripped.split())
    if state == "want_loop":
        raise ValueError("block name without loop_")
    for b in blocks:
        for r in b["rows"]:
            if len(r) != len(b["labels"]):
                raise ValueError(f"row with {len(r)} tokens for {len(b['labels'])} labels")
    return blocks
