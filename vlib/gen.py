"""Shared Hypothesis strategies.  Every strategy yields JSON-serialisable data."""
import math

import numpy as np
from hypothesis import strategies as st

from .oracle import MOTL_COLUMNS

COL_IDX = {c: i for i, c in enumerate(MOTL_COLUMNS)}

# ---------------------------------------------------------------------------------------------
# scalar classes
# ---------------------------------------------------------------------------------------------
small_int = st.integers(-50, 50).map(float)
pos_int = st.integers(1, 400).map(float)
half_int = st.integers(-40, 40).map(lambda k: k + 0.5)
plain_float = st.floats(-1e3, 1e3, allow_nan=False, allow_infinity=False, width=64)
unit_float = st.floats(-1, 1, allow_nan=False, width=64)


def finite(lo, hi):
    return st.floats(lo, hi, allow_nan=False, allow_infinity=False, width=64)


angle_any = st.one_of(
    st.floats(-360, 360, allow_nan=False, width=64),
    st.integers(-8, 8).map(lambda k: 45.0 * k),
    st.sampled_from([0.0, 90.0, -90.0, 180.0, -180.0, 270.0, 360.0]),
)
theta_any = st.one_of(
    st.floats(-360, 360, allow_nan=False, width=64),
    st.floats(0.5, 179.5, allow_nan=False, width=64),
    st.integers(-8, 8).map(lambda k: 45.0 * k),
    st.sampled_from([0.0, 180.0, -180.0, 0.0, 180.0, 90.0]),
)


@st.composite
def euler(draw):
    """(phi, theta, psi) in degrees from all rotation classes."""
    kind = draw(st.integers(0, 9))
    if kind <= 4:
        return [draw(st.floats(-360, 360, allow_nan=False, width=64)),
                draw(st.floats(-360, 360, allow_nan=False, width=64)),
                draw(st.floats(-360, 360, allow_nan=False, width=64))]
    if kind == 5:  # canonical ranges
        return [draw(finite(-180, 180)), draw(finite(0, 180)), draw(finite(-180, 180))]
    if kind == 6:  # lattice
        return [45.0 * draw(st.integers(-8, 8)), 45.0 * draw(st.integers(-4, 4)), 45.0 * draw(st.integers(-8, 8))]
    if kind == 7:  # gimbal lock
        return [draw(angle_any), draw(st.sampled_from([0.0, 180.0, -180.0, 360.0])), draw(angle_any)]
    if kind == 8:  # near identity
        e = draw(st.floats(1e-9, 1e-3, allow_nan=False))
        return [e * draw(unit_float), e, e * draw(unit_float)]
    return [90.0 * draw(st.integers(-4, 4)), 90.0 * draw(st.integers(-2, 2)), 90.0 * draw(st.integers(-4, 4))]


# ---------------------------------------------------------------------------------------------
# particle tables
# ---------------------------------------------------------------------------------------------
DEFAULT_FIELDS = {
    "score": st.one_of(finite(-1, 1), finite(-100, 100), st.integers(0, 5).map(float)),
    "geom1": st.one_of(small_int, plain_float),
    "geom2": st.one_of(small_int, plain_float),
    "subtomo_id": None,  # unique ids handled separately
    "tomo_id": st.integers(1, 4).map(float),
    "object_id": st.integers(1, 6).map(float),
    "subtomo_mean": plain_float,
    "x": st.one_of(small_int, half_int, finite(-200, 200), st.integers(0, 300).map(float)),
    "y": st.one_of(small_int, half_int, finite(-200, 200), st.integers(0, 300).map(float)),
    "z": st.one_of(small_int, half_int, finite(-200, 200), st.integers(0, 300).map(float)),
    "shift_x": st.one_of(st.just(0.0), st.sampled_from([0.5, -0.5]), finite(-3, 3)),
    "shift_y": st.one_of(st.just(0.0), st.sampled_from([0.5, -0.5]), finite(-3, 3)),
    "shift_z": st.one_of(st.just(0.0), st.sampled_from([0.5, -0.5]), finite(-3, 3)),
    "geom3": st.one_of(small_int, plain_float),
    "geom4": st.one_of(small_int, plain_float),
    "geom5": st.one_of(small_int, plain_float),
    "phi": None,  # via euler()
    "psi": None,
    "theta": None,
    "class": st.integers(0, 5).map(float),
}


@st.composite
def table(draw, min_rows=1, max_rows=12, fields=None, permute=True, unique_ids=True, bulk_max=0, bulk_large=None,
          id_strategy=None, euler_strategy=None, index_kinds=("default", "default", "reversed", "offset", "strided", "rotated", "repeated")):
    """A particle table as data: {"cols": column order, "rows": [[20 values canonical order]], "bulk": {...}|None}."""
    f = dict(DEFAULT_FIELDS)
    if fields:
        f.update(fields)
    n = draw(st.integers(min_rows, max_rows))
    if id_strategy is None:
        id_strategy = st.integers(1, 5000)
    if unique_ids:
        ids = draw(st.lists(id_strategy, min_size=n, max_size=n, unique=True))
    else:
        ids = draw(st.lists(id_strategy, min_size=n, max_size=n))
    es = euler_strategy or euler()
    rows = []
    for i in range(n):
        row = [0.0] * 20
        e = draw(es)
        for c, s in f.items():
            j = COL_IDX[c]
            if c == "subtomo_id":
                row[j] = float(ids[i])
            elif c == "phi" and s is None:
                row[j] = float(e[0])
            elif c == "theta" and s is None:
                row[j] = float(e[1])
            elif c == "psi" and s is None:
                row[j] = float(e[2])
            else:
                row[j] = draw(s)
        rows.append(row)
    cols = list(MOTL_COLUMNS)
    if permute:
        if draw(st.integers(0, 9)) > 0:
            cols = draw(st.permutations(MOTL_COLUMNS))
    bulk = None
    if bulk_max and draw(st.integers(0, 3)) == 0:
        bulk = {"seed": draw(st.integers(0, 2**31 - 1)), "n": draw(st.integers(1, bulk_max))}
        if bulk_large and draw(st.integers(0, 4)) == 0:  # realistic list sizes: anything done in blocks / batches / chunks
            bulk["n"] = draw(st.integers(bulk_large[0], bulk_large[1]))
    index = "default"
    if index_kinds:
        index = draw(st.sampled_from(index_kinds))
    # number-like fields stored with an integer dtype (tables built from python ints / integer arrays) - only where every value is integral
    id_dtype = draw(st.sampled_from(["float", "float", "float", "int"]))
    return {"cols": list(cols), "rows": rows, "bulk": bulk, "index": index, "id_dtype": id_dtype}


def default_bulk(rng, n, first_id):
    """Bulk rows: generic but valid particle rows (unique ids continue after first_id)."""
    a = np.zeros((n, 20))
    a[:, COL_IDX["score"]] = rng.uniform(-1, 1, n)
    for c in ("geom1", "geom2", "geom3", "geom4", "geom5", "subtomo_mean"):
        a[:, COL_IDX[c]] = np.round(rng.normal(0, 30, n), 3)
    a[:, COL_IDX["subtomo_id"]] = first_id + 1 + np.cumsum(rng.integers(1, 4, n))
    a[:, COL_IDX["tomo_id"]] = rng.integers(1, 5, n)
    a[:, COL_IDX["object_id"]] = rng.integers(1, 7, n)
    for c in ("x", "y", "z"):
        a[:, COL_IDX[c]] = np.round(rng.uniform(-50, 250, n) * 2) / 2
    for c in ("shift_x", "shift_y", "shift_z"):
        a[:, COL_IDX[c]] = rng.uniform(-2, 2, n)
    a[:, COL_IDX["phi"]] = rng.uniform(-360, 360, n)
    a[:, COL_IDX["theta"]] = rng.uniform(-360, 360, n)
    a[:, COL_IDX["psi"]] = rng.uniform(-360, 360, n)
    a[:, COL_IDX["class"]] = rng.integers(0, 4, n)
    return a


def table_array(t, bulk_fn=default_bulk):
    """(N,20) float64 array in canonical column order."""
    a = np.array(t["rows"], dtype=float).reshape(-1, 20)
    if t.get("bulk"):
        rng = np.random.default_rng(t["bulk"]["seed"])
        first = a[:, COL_IDX["subtomo_id"]].max() if len(a) else 0
        a = np.vstack([a, bulk_fn(rng, t["bulk"]["n"], first)])
    return a


def table_df(t, bulk_fn=default_bulk):
    """pandas DataFrame with the drawn column order."""
    import pandas as pd

    a = table_array(t, bulk_fn)
    df = pd.DataFrame(a, columns=MOTL_COLUMNS)
    n = len(df)
    kind = t.get("index", "default")
    if kind == "reversed":  # labels n-1..0: label order differs from row order
        df.index = list(range(n - 1, -1, -1))
    elif kind == "offset":  # labels beyond the row count (as left behind by filtering a larger table)
        df.index = list(range(n + 3, 2 * n + 3))
    elif kind == "strided":
        df.index = list(range(0, 3 * n, 3))
    elif kind == "rotated":
        df.index = [(i + 1) % n for i in range(n)] if n else []
    elif kind == "repeated":  # labels as left behind by pd.concat of two lists without ignore_index: 0..k-1, 0..n-k-1
        k = (n + 1) // 2
        df.index = list(range(k)) + list(range(n - k))
    if t.get("id_dtype") == "int":
        for c in ("subtomo_id", "tomo_id", "object_id", "class"):
            v = df[c].to_numpy()
            if np.all(np.isfinite(v)) and np.all(v == np.round(v)) and np.all(np.abs(v) < 2**53):
                df[c] = v.astype(np.int64)
    return df[list(t["cols"])].copy()


def is_identity_perm(t):
    return list(t["cols"]) == MOTL_COLUMNS
